# -*- coding: utf-8 -*-
"""
C16 - Readers are total: a document, or a ParserException - never anything else.

Tie between lean/OdmlModel/Model/Reader.lean (control flow of XMLReader / DictReader over abstract
input trees) and /repo, plus the implementation-level oracle of the property:

  * outcome of every reader call is a Document or ParserException (InvalidVersionException);
  * lenient mode + well-formed input with a current-version odML root  =>  a Document;
  * lenient mode keeps all valid parts (fault-injection stream: everything of the valid original
    is still there);
  * every returned Document is a well-formed tree with unique, non-empty sibling names and
    canonical ids (C03/C04 for loaded documents);
  * every call ends within a hard time limit.

Streams: xml_tree / dict_tree (grammar-generated abstract trees, compared with the model),
xml_text / dict_text (arbitrary strings and structural mutations of valid files, oracle only),
keep (valid generated documents with injected faults).
Round 2, oracle only (see the comment above XML_ENTRIES): xml_file / keepx (byte encodings x shapes of the entry
points x reader options x XML-level features x extended text pools), dict_py (Python values that are no JSON
trees, YAML-only constructs, default show_warnings), reuse (one reader object, several inputs), sub (other
locale and hash seed).
Round 3 (see the comment above SPICE): the characters of the texts - tokens that mean something to message
templates, escapes, quoting, regular expressions, markup, paths - in the trees of every tree stream; stream fault
(valid document + a fault from a grammar: problem kind x texts carried x location x copies x line number), with the
clause "a lenient read of an input with a problem has recorded a warning"; further shapes of the entry points
(pathlib, bytes path, bytearray, memoryview), boundary inputs, an interpreter with -OO.
Round 4 (see the comment above PY_LIMIT): the nesting depth of the input against the interpreter's recursion limit -
stream deep, every reader call in a fresh thread with a known, small number of frames below it and the default
recursion limit; XML chains around libxml2's depth limit (oracle-only through all entry points, and as abstract
trees tied to the model incl. the frames the reader's module stacks up, theorem C16.nesting_within_recursion_limit),
JSON / YAML / dictionaries up to the depth the decoders decode, one reader for several deep inputs.
"""
import contextlib
import io
import json
import os
import re
import select
import signal
import subprocess
import sys
import tempfile
import uuid

import framework as fw

TIME_LIMIT = 20          # seconds per reader call
ALLOWED = ("doc", "ParserException", "InvalidVersionException")

DOC_TAGS = ["id", "version", "author", "date", "section", "repository"]
SEC_TAGS = ["id", "type", "name", "definition", "reference", "link", "repository", "section",
            "include", "property", "sec_cardinality", "prop_cardinality"]
PROP_TAGS = ["id", "name", "value", "unit", "definition", "dependency", "dependencyvalue",
             "uncertainty", "reference", "type", "value_origin", "val_cardinality"]
WRONG_TAGS = ["foo", "odML", "odml", "values", "sections", "properties", "oid", "dtype", "Name",
              "SECTION", "Property", "{u}section", "valu", "name2", "_"]
NAMES = ["a", "b", "ab", "A", "c", " a ", "", "a b", u"é", "1"]
UUIDS = ["3a1f0c1e-8d5b-4c8e-9f59-1b2a3c4d5e6f", "3A1F0C1E-8D5B-4C8E-9F59-1B2A3C4D5E6F",
         "{3a1f0c1e-8d5b-4c8e-9f59-1b2a3c4d5e6f}", "3a1f0c1e8d5b4c8e9f591b2a3c4d5e6f",
         "79b613eb-a256-46bf-84f6-207df465b8f7", "bad-id", "", "1"]
DATES = ["2020-01-02", "foo", "", "2020-13-45", "2020-1-2", "02.01.2020", "2020-01-02 10:00:00"]
DTYPES = ["int", "string", "float", "boolean", "date", "datetime", "time", "text", "2-tuple",
          "nonsense", "Int", "person", "url", "", "3-tuple"]
VALUES = ["1", "[1,2]", "x", "[a,b]", "", "[", "[]", "[a\rb,c]", "(1;2)", "[(1;2),(3;4)]", '"',
          '["a,b",c]', "2020-01-01", "True", "[1,x]", " [1, 2] ", "[\n]", "1.5", "[a\r]", "\r",
          '[a"b,c]', "[,]", "[1;2]", u"[é,ü]", "a,b", "[ ]"]
CARDS = ["(1, 2)", "(2,1)", "(None,3)", "x", u"(²,3)", "", "(0,0)", "(-1,2)", "(2, 2)", "(3, None)",
         u"(1,³)", "(1,2,3)", "()", u"(¹, None)", " (1, 2) ", "[1, 2]"]
MISC = ["x", "", " ", "some text", "http://example.invalid/t.xml", "/a/b", "0.5", u"é ", "a&b<c>"]


# Extended pools (round 2): only the oracle-only streams switch them on (_X[0] = True); the streams that are
# compared with the Lean model keep the pools above (str.lower()/strip()/isdigit() are modelled for ASCII
# plus the superscript digits only).
_X = [False]
NAMES_X = [u"caf\xe9", u"\u65e5\u672c", u"a\u2028b", u"a\x85b", u"\U0001f600", u"\u0130", u"\xdf", "a/b", "a:b", "..",
           u"e\u0301", "n" * 300, "0", "10", "-1", "None", "True", u"\xa0", "name", u"\uff11", "a\tb", "a\nb", u"\ud800"]
UUIDS_X = ["urn:uuid:3a1f0c1e-8d5b-4c8e-9f59-1b2a3c4d5e6f", "00000000-0000-0000-0000-000000000000",
           u"\uff13a1f0c1e-8d5b-4c8e-9f59-1b2a3c4d5e6f", " 3a1f0c1e-8d5b-4c8e-9f59-1b2a3c4d5e6f ",
           "3a1f0c1e-8d5b-4c8e-9f59-1b2a3c4d5e6", "g" * 32, "3a1f0c1e-8d5b-4c8e-9f59-1b2a3c4d5e6f\n"]
DATES_X = ["0999-01-01", "0001-01-01", "9999-12-31", "10000-01-01", "2020-02-30", "2020-01-02T10:00:00",
           u"\u0662\u0660\u0662\u0660-\u0660\u0661-\u0660\u0662", "2020-01-02 ", "20200102", "999-01-01",
           "-2020-01-02", "2020-01-02\n", "2020-1-02", "1900-02-29", "2000-02-29"]
DTYPES_X = ["4-tuple", "10-tuple", "0-tuple", "-1-tuple", u"\uff12-tuple", "INT", "Date", "string ", "list",
            "tuple", "1-tuple", "2-Tuple", "11-tuple", "datetime ", u"\u00b2-tuple"]
VALUES_X = [u"[caf\xe9,\u65e5\u672c]", "[1,10,2]", "1e400", "[nan,inf]",
            "[" + ",".join(str(i) for i in range(200)) + "]", u"[\u2028]", u"[a\x85b]", "[[1,2],[3]]", "(1;2;3)",
            "0999-01-01", "[0999-01-01,2020-01-01]", "[True,false,TRUE]", "(1;2;3;4)",
            "[(1;2;3;4;5;6;7;8;9;10)]", "(1;2;3;4;5;6;7;8;9;10;11)", "99999999999999999999999", u"\uff11",
            u"[\u0663]", "10:00:00", "[0999-01-01 10:00:00]", "'a'", "[a'b,c]", "a\tb", "[\t]", "[1,,2]",
            "[ 1 , 2 ]", "-0", "[1e3,0x10,1_0]", "2020-01-02 10:00:00", "[\"\"]", "[\"a\"\"b\"]",
            "9" * 4301, "[1," + "9" * 5000 + "]", "-" + "9" * 4301, "(1;" + "9" * 5000 + ")"]
CARDS_X = ["(10, 2)", "(9,10)", "(2,10)", "(010,2)", "(10,10)", "(1e3,2)", "(+1,2)", "(1_0,2)", u"(\u0663,4)",
           u"(\uff11,\uff12)", "(1.0,2)", "(1,2.5)", "(99999999999999999999,None)", "(None,None)", "(none,1)",
           "(1 ,2)", "(1,\n2)", "((1,2))", "(1,2),", u"(\uff11, None)", "(100,99)", "(0,10)", "(1,None,)",
           "(True,2)", "(1;2)", "1,2", "(1,2", "(,)", "(None,)", "(-0,1)", "(00,01)",
           # decimal text around the interpreter's limit for int(str) (4300 digits since Python 3.11)
           "(" + "9" * 4300 + ",None)", "(" + "9" * 4301 + ",None)", "(None," + "1" * 5000 + ")",
           "(" + "0" * 5000 + ",1)", "(1," + "9" * 5000 + ")", "(" + "9" * 5000 + "," + "9" * 5001 + ")"]
MISC_X = [u"caf\xe9", u"\u65e5\u672c", u"a\u2028b", u"a\x85b", u"\U0001f600", "x" * 2000, "file:///etc/hostname",
          "file:///nonexistent.xml#a", "#", "a#b#c", "\t", "0", "None", u"\ud800", u"\ufffe", "\x0b"]


def pick(rng, base, ext):
    return rng.choice(base + ext) if _X[0] else rng.choice(base)


def texts_for(tag, rng):
    t = tag.lower()
    if t == "id":
        return pick(rng, UUIDS, UUIDS_X)
    if t == "date":
        return pick(rng, DATES, DATES_X)
    if t == "name":
        return pick(rng, NAMES, NAMES_X)
    if t == "value":
        return pick(rng, VALUES, VALUES_X)
    if t.endswith("_cardinality"):
        return pick(rng, CARDS, CARDS_X)
    if t == "type":
        return pick(rng, DTYPES + ["t", "t"], DTYPES_X)
    if t == "uncertainty":
        return pick(rng, ["0.5", "x", "", "1"], ["1e400", "nan", u"\uff11", "-0.5", "0,5"])
    return pick(rng, MISC, MISC_X)


# ----------------------------------------------------------------------------- abstract XML
def elem(tag, text=None, kids=None, attrs=None):
    return {"t": tag, "a": attrs or [], "x": text, "k": kids or []}


def case_variant(tag, rng):
    r = rng.random()
    if r < 0.85:
        return tag
    if r < 0.92:
        return tag.upper()
    return tag.capitalize()


def gen_attrs(rng):
    if rng.random() < 0.9:
        return []
    return [rng.choice([["foo", "x"], ["version", "1.1"], ["Version", "2"], ["id", "q"]])]


def gen_leaf(tag, rng):
    txt = texts_for(tag, rng)
    if rng.random() < 0.05:
        txt = None
    kids = []
    if rng.random() < 0.04:
        kids = [elem("foo", "y")]
    return elem(case_variant(tag, rng), txt, kids, gen_attrs(rng))


def gen_other(rng):
    return {"o": rng.choice(["pi", "comment", "pi"])}


def gen_prop(rng, depth):
    kids = []
    if rng.random() < 0.9:
        kids.append(gen_leaf("name", rng))
    for _ in range(rng.randrange(0, 4)):
        r = rng.random()
        if r < 0.8:
            kids.append(gen_leaf(rng.choice(PROP_TAGS), rng))
        elif r < 0.88:
            kids.append(gen_leaf(rng.choice(WRONG_TAGS), rng))
        elif r < 0.93:
            kids.append(gen_other(rng))
        elif r < 0.97:
            kids.append(gen_sec(rng, depth + 1))
        else:
            kids.append(gen_prop(rng, depth + 1))
    rng.shuffle(kids)
    return elem(case_variant("property", rng), None, kids, gen_attrs(rng))


def gen_sec(rng, depth):
    kids = []
    if rng.random() < 0.9:
        kids.append(gen_leaf("name", rng))
    if rng.random() < 0.85:
        kids.append(gen_leaf("type", rng))
    n = rng.randrange(0, 5 if depth < 3 else 2)
    for _ in range(n):
        r = rng.random()
        if r < 0.3 and depth < 4:
            kids.append(gen_sec(rng, depth + 1))
        elif r < 0.6:
            kids.append(gen_prop(rng, depth + 1))
        elif r < 0.85:
            kids.append(gen_leaf(rng.choice(SEC_TAGS[:7] + SEC_TAGS[8:9] + SEC_TAGS[10:]), rng))
        elif r < 0.92:
            kids.append(gen_leaf(rng.choice(WRONG_TAGS + PROP_TAGS), rng))
        else:
            kids.append(gen_other(rng))
    if rng.random() < 0.5:
        rng.shuffle(kids)
    return elem(case_variant("section", rng), rng.choice([None, None, "\n  ", "txt"]), kids, gen_attrs(rng))


def gen_xml_doc(rng):
    kids = []
    for _ in range(rng.randrange(0, 6)):
        r = rng.random()
        if r < 0.55:
            kids.append(gen_sec(rng, 1))
        elif r < 0.8:
            kids.append(gen_leaf(rng.choice(DOC_TAGS[:4] + DOC_TAGS[5:]), rng))
        elif r < 0.88:
            kids.append(gen_leaf(rng.choice(WRONG_TAGS + ["name", "type", "value"]), rng))
        elif r < 0.93:
            kids.append(gen_prop(rng, 1))
        else:
            kids.append(gen_other(rng))
    r = rng.random()
    attrs = [["version", "1.1"]]
    tag = "odML"
    if r < 0.04:
        attrs = []
    elif r < 0.08:
        attrs = [["version", rng.choice(["1", "1.0", "1.10", "2", " 1.1", "1.1 ", ""])]]
    elif r < 0.11:
        attrs = [["Version", "1.1"]]
    elif r < 0.15:
        attrs = [["version", "1.1"], ["foo", "x"]]
    elif r < 0.19:
        tag = rng.choice(["odml", "ODML", "section", "x", "{u}odML"])
    return elem(tag, None, kids, attrs)


XML_ESC = {"&": "&amp;", "<": "&lt;", ">": "&gt;", "\r": "&#13;", '"': "&quot;"}


def esc(s):
    return "".join(XML_ESC.get(c, c) for c in s)


def ser_tag(tag):
    """'{u}name' is written as a prefixed name of namespace u."""
    if tag.startswith("{"):
        ns, local = tag[1:].split("}")
        return "n:" + local, ' xmlns:n="%s"' % ns
    return tag, ""


def serialize(node):
    if "o" in node:
        return {"pi": "<?target data?>", "comment": "<!-- note -->", "entity": ""}[node["o"]]
    tag, nsdecl = ser_tag(node["t"])
    out = "<" + tag + nsdecl + "".join(' %s="%s"' % (k, esc(v)) for k, v in node["a"])
    inner = (esc(node["x"]) if node["x"] is not None else "") + "".join(serialize(k) for k in node["k"])
    if not inner and node["x"] is None:
        return out + "/>"
    return out + ">" + inner + "</" + tag + ">"


def model_tree(node):
    """The tree lxml hands to the reader: comments are removed by the reader's parser; an element
    without text and children has text None; text directly followed by a removed comment is kept."""
    if "o" in node:
        return node
    kids = [model_tree(k) for k in node["k"] if k.get("o") != "comment"]
    txt = node["x"]
    if txt == "":
        txt = None
    return {"t": node["t"], "a": node["a"], "x": txt, "k": kids}


# ----------------------------------------------------------------------------- abstract dict values
def jobj(pairs):
    seen = set()
    out = []
    for k, v in pairs:
        if k not in seen:
            seen.add(k)
            out.append([k, v])
    return {"o": out}


SCALARS = [None, True, False, 0, 1, 5, -1, "x", "", "None", {"f": "0.5"}, {"f": "0.0"}, [], [1], {"o": []},
           {"o": [["k", 1]]}, "2020-01-02", [1, 2], [None, 3], ["None", 2], [2, 1], [True, 2], [[1], 2],
           [{"f": "1.5"}, 2], "ab"]
DNAMES = ["a", "b", "ab", "A", "", None, 1, 2, 0, [1], [], "a", "b", True]


# Python values that are no JSON-like values (round 2, oracle-only stream dict_py); decoded by to_py_x
XV = [{"tuple": [1, 2]}, {"tuple": []}, {"date": "2020-01-02"}, {"date": "0999-01-01"}, {"datetime": "2020-01-02T10:00:00"},
      {"time": "10:00:00"}, {"bytes": "6162"}, {"set": [1, 2]}, {"f": "nan"}, {"f": "inf"}, {"f": "-0.0"}, {"f": "1e308"},
      10 ** 30, -10 ** 400, u"caf\xe9", u"\u2028", u"a\x85b", "x" * 3000, {"od": [["a", 1]]}, {"ok": [[1, 2], [None, 3]]},
      {"ok": [[{"tuple": [1, 2]}, 1]]}, u"\ud800", {"tuple": [{"tuple": [1, 2]}, {"tuple": [3, 4]}]}]
DNAMES_X = [u"caf\xe9", {"bytes": "73"}, {"date": "2020-01-02"}, {"f": "nan"}, {"tuple": [1]}, 10 ** 30, {"f": "1.0"},
            {"f": "2.5"}, u"\u2028", "10", -1, u"\ud800", "n" * 300, {"set": []}, " ", "a/b"]
DCARDS_X = [{"tuple": [1, 2]}, [10, 2], [2, 10], [10, 10], [10 ** 30, None], [{"f": "1.0"}, {"f": "2.0"}], ["1", "2"],
            [None, None], {"tuple": [None, 3]}, "(1, 2)", [1, {"f": "2.5"}], {"set": [1, 2]}, [{"f": "nan"}, 1],
            [{"f": "inf"}, None], {"tuple": [2, 1]}, [0, 10], [100, 99], {"tuple": [1, 2, 3]}, [False, True]]
# Not generated: an int with more digits than int <-> str converts (4300 since Python 3.11) inside a dictionary.  No
# JSON or YAML text decodes to one (both decoders refuse the digits), so a dictionary holding one is not "input shaped
# like an odML dictionary" that the JSON/YAML reader can meet; str() of it raises ValueError wherever the library
# formats a message.  XML text with such digits IS in the quantifier ("arbitrary strings"): CARDS_X / VALUES_X.
DVALUES_X = [{"tuple": [1, 2]}, [{"tuple": [1, 2]}], {"date": "2020-01-02"}, [{"date": "0999-01-01"}],
             [{"datetime": "2020-01-02T10:00:00"}], [{"time": "10:00:00"}], [{"bytes": "6162"}], {"set": [1, 2]},
             [{"f": "nan"}, {"f": "inf"}], [10 ** 400], [u"caf\xe9", u"\u65e5\u672c"], ["(1;2;3;4;5;6;7;8;9;10)"],
             list(range(200)), [u"\ud800"], ["0999-01-01"], [[1, 2], [3, 4]], [{"od": [["a", 1]]}], ["1", 1, True]]


def d_value_for(key, rng):
    k = key.lower()
    if k in ("id", "oid"):
        return pick(rng, UUIDS + [5, None], UUIDS_X + [{"bytes": "6162"}, {"f": "1.5"}])
    if k == "date":
        return pick(rng, DATES + [None, 3], DATES_X + [{"date": "2020-01-02"}, {"datetime": "2020-01-02T10:00:00"},
                                                       {"date": "0999-01-01"}, {"time": "10:00:00"}, {"f": "nan"}])
    if k == "name":
        return pick(rng, DNAMES, DNAMES_X)
    if k in ("value", "values"):
        return pick(rng, [1, [1, 2], "x", ["a", "b"], [], None, [[1, 2], [3]], {"o": [["a", 1]]}, [None],
                          {"f": "1.5"}, [1, "x"], "(1;2)", True, [True, False], ""], DVALUES_X)
    if k.endswith("_cardinality"):
        return pick(rng, [[1, 2], [2, 1], [None, 3], "ab", 5, [1, "x"], [[1], 2], [{"f": "1.5"}, 2],
                          [True, 2], {"o": [["a", 1]]}, None, [2, 2], [0, 0], [-1, 2], ["None", 2],
                          [1, 2, 3], []], DCARDS_X)
    if k in ("type", "dtype"):
        return pick(rng, DTYPES + ["t", 5, None], DTYPES_X + [{"bytes": "696e74"}, {"tuple": ["int"]}])
    if k == "uncertainty":
        return pick(rng, [{"f": "0.5"}, "x", None, 0, 1], [{"f": "nan"}, 10 ** 400, {"tuple": [1]}])
    if k in ("dependency", "dependencyvalue", "dependency_value") and _X[0]:
        return rng.choice(SCALARS + DNAMES + [True, 0, 1, 5, -1])
    return pick(rng, SCALARS, XV)


PROP_KEYS = PROP_TAGS + ["values", "dtype", "oid", "dependency_value"]
SEC_KEYS = [k for k in SEC_TAGS if k not in ("section", "property")] + ["oid"]
DOC_KEYS = [k for k in DOC_TAGS if k != "section"] + ["oid"]
WRONG_KEYS = ["foo", "section", "property", "Sections", "NAME", "", "valu", "parent"]


def gen_dprop(rng):
    if rng.random() < 0.06:
        return rng.choice(SCALARS)
    pairs = []
    if rng.random() < 0.9:
        pairs.append(["name", d_value_for("name", rng)])
    for _ in range(rng.randrange(0, 4)):
        key = rng.choice(PROP_KEYS) if rng.random() < 0.88 else rng.choice(WRONG_KEYS + ["sections"])
        pairs.append([key, d_value_for(key, rng)])
    rng.shuffle(pairs)
    return jobj(pairs)


def gen_dsec(rng, depth):
    if rng.random() < 0.06:
        return rng.choice(SCALARS)
    pairs = []
    if rng.random() < 0.9:
        pairs.append(["name", d_value_for("name", rng)])
    if rng.random() < 0.8:
        pairs.append(["type", rng.choice(["t", "t", "n.s.", "", None, 3])])
    for _ in range(rng.randrange(0, 3)):
        key = rng.choice(SEC_KEYS) if rng.random() < 0.85 else rng.choice(WRONG_KEYS + ["value"])
        pairs.append([key, d_value_for(key, rng)])
    if rng.random() < 0.6:
        if rng.random() < 0.08:
            pairs.append(["properties", rng.choice(SCALARS)])
        else:
            pairs.append(["properties", [gen_dprop(rng) for _ in range(rng.randrange(0, 4))]])
    if depth < 4 and rng.random() < 0.5:
        if rng.random() < 0.08:
            pairs.append(["sections", rng.choice(SCALARS)])
        else:
            pairs.append(["sections", [gen_dsec(rng, depth + 1) for _ in range(rng.randrange(0, 4))]])
    if rng.random() < 0.5:
        rng.shuffle(pairs)
    return jobj(pairs)


def gen_dict_doc(rng):
    r = rng.random()
    if r < 0.05:
        return rng.choice(SCALARS + ["Document odml-version", ["Document", "odml-version"]])
    pairs = []
    for _ in range(rng.randrange(0, 3)):
        key = rng.choice(DOC_KEYS) if rng.random() < 0.8 else rng.choice(WRONG_KEYS + ["properties", "name"])
        pairs.append([key, d_value_for(key, rng)])
    if rng.random() < 0.9:
        if rng.random() < 0.06:
            pairs.append(["sections", rng.choice(SCALARS)])
        else:
            pairs.append(["sections", [gen_dsec(rng, 1) for _ in range(rng.randrange(0, 5))]])
    rng.shuffle(pairs)
    doc = jobj(pairs)
    r = rng.random()
    if r < 0.05:
        doc = rng.choice(SCALARS)
    top = [["Document", doc], ["odml-version", "1.1"]]
    r = rng.random()
    if r < 0.04:
        top = [["Document", doc]]
    elif r < 0.08:
        top = [["odml-version", "1.1"]]
    elif r < 0.14:
        top = [["Document", doc], ["odml-version", rng.choice(["1", "1.0", {"f": "1.1"}, 1, None, "1.1 ", [1]])]]
    elif r < 0.17:
        top.append(["extra", 1])
    if rng.random() < 0.5:
        top.reverse()
    return jobj(top)


def to_py(j):
    """harness/driver encoding of a JSON-like value -> Python value"""
    if isinstance(j, list):
        return [to_py(x) for x in j]
    if isinstance(j, dict):
        if "f" in j:
            return float(j["f"])
        return dict((k, to_py(v)) for k, v in j["o"])
    return j


def to_jenc(v):
    """Python value -> harness/driver encoding (None if it has no encoding)"""
    if v is None or isinstance(v, (bool, str)):
        return v
    if isinstance(v, int):
        return v
    if isinstance(v, float):
        return {"f": repr(v)}
    if isinstance(v, (list, tuple)):
        return [to_jenc(x) for x in v]
    if isinstance(v, dict):
        return {"o": [[k if isinstance(k, str) else repr(k), to_jenc(x)] for k, x in v.items()]}
    return {"other": repr(v)}


def json_like(v):
    """does json.dumps/loads reproduce the value (no float specials, string keys)?"""
    try:
        return json.loads(json.dumps(v)) == v
    except Exception:
        return False


# ----------------------------------------------------------------------------- text streams
ALPHA = list(u"<>/=\"'&;?![]-{}:,# \n\t") + ["odML", "version", "1.1", "section", "property", "name",
                                                 "value", "Document", "odml-version", "sections", "a", "b",
                                                 "<?xml", "?>", "<!--", "-->", "<![CDATA[", "]]>",
                                                 "<!DOCTYPE", u"é", u"²", "\r", "&amp;", "&#13;",
                                                 "&e;", "encoding=", "\"UTF-8\"", "- ", ": ", "!!python/object",
                                                 "*x", "&x ", "%YAML", "---", "null", "true", "1e999", "\\u00",
                                                 # round 3: characters that mean something to message templates
                                                 "%", "%s", "%d", "%(", "{0}", "{", "}", "\\", "$", "'", "`", "%%", "100% "]


def random_text(rng):
    n = rng.randrange(0, 25)
    return "".join(rng.choice(ALPHA) for _ in range(n))


def mutate_text(text, rng):
    if not text:
        return text
    ops = rng.randrange(1, 4)
    for _ in range(ops):
        n = len(text)
        if n < 2:
            break
        r = rng.random()
        i = rng.randrange(0, n)
        j = min(n, i + rng.randrange(1, 40))
        if r < 0.2:
            text = text[:i] + text[j:]                            # delete a span
        elif r < 0.4:
            text = text[:j] + text[i:j] + text[j:]                # duplicate a span
        elif r < 0.55:
            text = text[:i] + rng.choice(ALPHA) + text[i:]        # insert a token
        elif r < 0.65:
            text = text[:i]                                       # truncate
        elif r < 0.8:
            words = re.findall(r"[A-Za-z_]{3,}", text)
            if words:
                w = rng.choice(words)
                repl = rng.choice([w.upper(), w.capitalize(), w[:-1], rng.choice(SEC_TAGS + PROP_TAGS),
                                   "sections", "properties", "Document"])
                text = text.replace(w, repl, rng.choice([1, 1, 50]))
        elif r < 0.9:
            k = rng.randrange(0, n)
            l = min(n, k + rng.randrange(1, 40))
            if j <= k:
                text = text[:i] + text[k:l] + text[j:k] + text[i:j] + text[l:]    # swap two spans
        else:
            text = text[:i] + text[i:j].swapcase() + text[j:]
    return text


_RES = {}


def resource_texts():
    """valid and invalid example files of the repository, by format"""
    if _RES:
        return _RES
    base = os.path.join(fw.REPO, "test", "resources")
    out = {"XML": [], "JSON": [], "YAML": []}
    if os.path.isdir(base):
        for name in sorted(os.listdir(base)):
            path = os.path.join(base, name)
            if not os.path.isfile(path) or os.path.getsize(path) > 30000:
                continue
            ext = name.rsplit(".", 1)[-1].lower()
            fmt = {"xml": "XML", "odml": "XML", "json": "JSON", "yaml": "YAML", "yml": "YAML"}.get(ext)
            if fmt is None:
                continue
            try:
                with io.open(path, encoding="utf-8") as fh:
                    out[fmt].append(fh.read())
            except Exception:
                pass
    _RES.update(out)
    return _RES


# ----------------------------------------------------------------------------- valid documents
def gen_valid_doc(rng):
    """description of a valid document: nested [name, type, props, subsections]"""
    def sec(depth, used):
        name = rng.choice([n for n in ["a", "b", "c", "d", "e", "ab"] if n not in used])
        used.add(name)
        props = []
        pused = set()
        for _ in range(rng.randrange(0, 3)):
            pn = rng.choice([n for n in ["p", "q", "r", "a"] if n not in pused])
            pused.add(pn)
            props.append([pn, rng.choice([[1, 2], ["x"], [], [1.5], ["a", "b"]])])
        subs = []
        sused = set()
        if depth < 3:
            for _ in range(rng.randrange(0, 3)):
                subs.append(sec(depth + 1, sused))
        return [name, "t", props, subs]
    used = set()
    return [sec(1, used) for _ in range(rng.randrange(1, 4))]


def build_doc(desc):
    import odml
    doc = odml.Document(author="x")

    def add(parent, d):
        s = odml.Section(name=d[0], type=d[1], parent=parent)
        for pn, vals in d[2]:
            odml.Property(name=pn, values=vals, parent=s)
        for sub in d[3]:
            add(s, sub)
    for d in desc:
        add(doc, d)
    return doc


def desc_paths(desc, prefix=""):
    out = []
    for d in desc:
        p = prefix + "/" + d[0]
        out.append(p)
        for pn, _ in d[2]:
            out.append(p + ":" + pn)
        out += desc_paths(d[3], p)
    return out


def doc_paths(doc):
    out = []

    def walk(sec, prefix):
        p = prefix + "/" + str(sec.name)
        out.append(p)
        for pr in sec.properties:
            out.append(p + ":" + str(pr.name))
        for sub in sec.sections:
            walk(sub, p)
    for s in doc.sections:
        walk(s, "")
    return out


BAD_PROPS = ['<property><name>zz</name><type>int</type><value>x</value></property>',
             '<property><name>zz</name><value>[a&#13;b,c]</value></property>',
             '<property><name>zz</name><val_cardinality>(1,\u00b3)</val_cardinality></property>',
             '<property><name>%(pdup)s</name></property>',
             '<property foo="1"><name>zz</name><section/><?pi?></property>']
ANY_FAULTS = ['<foo>1</foo>', '<?pi x?>', '<value>3</value>', '<NAME2/>', '<!-- c -->',
              '<section foo="1"><name>zz</name><type>t</type></section>',
              '<section><name>zz</name><section><name>k</name><type>t</type></section><section><name>k</name>'
              '<type>t</type></section></section>', '<section><name>%(sdup)s</name><type>t</type></section>']
DOC_FAULTS = ANY_FAULTS + ['<date>nonsense</date>', '<property><name>zz</name></property>', '<version/>']
SEC_FAULTS = ANY_FAULTS + BAD_PROPS + ['<sec_cardinality>(\u00b2,3)</sec_cardinality>', '<definition/>',
                                       '<prop_cardinality>x</prop_cardinality>']


# ----------------------------------------------------------------------------- running the readers
class _Timeout(Exception):
    pass


def _alarm(_sig, _frm):
    raise _Timeout()


@contextlib.contextmanager
def time_limit(seconds):
    old = signal.signal(signal.SIGALRM, _alarm)
    signal.alarm(seconds)
    try:
        yield
    finally:
        signal.alarm(0)
        signal.signal(signal.SIGALRM, old)


_TMP = []


def tmp_path(suffix):
    # one private directory per run, created in the parent (generate() asks for it before the
    # workers are forked) and removed when the parent exits; workers only add per-pid files
    if not _TMP:
        import atexit
        import shutil
        _TMP.append(tempfile.mkdtemp(prefix="c16_"))
        atexit.register(shutil.rmtree, _TMP[0], True)
    return os.path.join(_TMP[0], "case_%d%s" % (os.getpid(), suffix))


def name_enc(obj):
    nm = obj.name
    return {"n": to_jenc(nm), "is_id": bool(isinstance(nm, str) and nm == obj.id)}


def snapshot(doc):
    def sec(s):
        return {"name": name_enc(s), "props": [name_enc(p) for p in s.properties],
                "secs": [sec(x) for x in s.sections]}
    return {"secs": [sec(s) for s in doc.sections]}


def wf_problems(doc):
    """C03 / C04 for a loaded document, over the public API."""
    import odml
    out = []
    seen = set()

    def canonical(i):
        try:
            return isinstance(i, str) and str(uuid.UUID(i)) == i
        except Exception:
            return False

    def check_names(children, what, where):
        names = []
        for c in children:
            nm = c.name
            if nm is None or (isinstance(nm, str) and nm == "") or (not isinstance(nm, (str, int, float)) and not nm):
                out.append("%s with empty name in %s" % (what, where))
            for other in names:
                try:
                    same = (other == nm)
                except Exception:
                    same = False
                if same:
                    out.append("two %ss named %r in %s" % (what, nm, where))
            names.append(nm)

    def walk(node, parent, depth):
        if id(node) in seen:
            out.append("object reachable twice")
            return
        seen.add(id(node))
        if depth > 200:
            out.append("depth > 200")
            return
        if not canonical(node.id):
            out.append("id %r is not a canonical uuid" % (node.id,))
        if parent is not None and node.parent is not parent:
            out.append("child %r does not report its container as parent" % (node.name,))
        if isinstance(node, odml.property.BaseProperty):
            return
        check_names(node.sections, "Section", repr(getattr(node, "name", "document")))
        for s in node.sections:
            walk(s, node, depth + 1)
        if hasattr(node, "properties"):
            check_names(node.properties, "Property", repr(node.name))
            for p in node.properties:
                walk(p, node, depth + 1)
    if doc.parent is not None:
        out.append("document has a parent")
    walk(doc, None, 0)
    return out[:5]


def finish(res, reader_warnings, fn):
    """run fn() under the time limit and classify what happens"""
    import odml
    shallow = _SHALLOW[0]          # round 4: the reader call runs in a fresh thread (see call_shallow)
    try:
        with time_limit(TIME_LIMIT):
            doc = call_shallow(fn, res) if shallow else fn()
    except _Timeout:
        res["outcome"] = "timeout"
        return res
    except Exception as exc:
        res["outcome"] = fw.exc_name(exc)
        res["warnings"] = len(reader_warnings())
        return res
    res["warnings"] = len(reader_warnings())
    if isinstance(doc, odml.doc.BaseDocument):
        res["outcome"] = "doc"
        try:
            with time_limit(TIME_LIMIT):
                if shallow:
                    # documents of any depth: the same clauses, inspected without recursion
                    res["wf"] = wf_problems_deep(doc)
                    res["sig"] = doc_sig(doc)
                    res["flat"] = doc_flat(doc)
                else:
                    res["doc"] = snapshot(doc)
                    res["wf"] = wf_problems(doc)
                    res["paths"] = doc_paths(doc)
        except _Timeout:
            res["outcome"] = "timeout"
        except Exception as exc:
            res["wf"] = ["inspecting the returned document raised %s" % fw.exc_name(exc)]
    else:
        res["outcome"] = "returned:" + type(doc).__name__
    return res


def run_xml(text, mode, entry):
    """entry: string | file | odml_string | odml_file | bytes | file_rb | bytesio (UTF-8 throughout)"""
    from odml.tools.xmlparser import XMLReader
    from odml.tools.odmlparser import ODMLReader
    res = {}
    if entry in ("string", "file", "bytes", "file_rb", "bytesio"):
        rd = XMLReader(ignore_errors=(mode == "lenient"), show_warnings=False)
        if entry == "string":
            return finish(res, lambda: rd.warnings, lambda: rd.from_string(text))
        if entry == "bytes":
            return finish(res, lambda: rd.warnings, lambda: rd.from_string(text.encode("utf-8")))
        if entry == "bytesio":
            return finish(res, lambda: rd.warnings, lambda: rd.from_file(io.BytesIO(text.encode("utf-8"))))
        path = tmp_path(".xml")
        with io.open(path, "w", encoding="utf-8", newline="") as fh:
            fh.write(text)
        if entry == "file_rb":
            return finish(res, lambda: rd.warnings, lambda: rd.from_file(io.open(path, "rb")))
        return finish(res, lambda: rd.warnings, lambda: rd.from_file(path))
    rd = ODMLReader("XML", show_warnings=False)
    if entry == "odml_string":
        return finish(res, lambda: rd.warnings, lambda: rd.from_string(text))
    path = tmp_path(".xml")
    with io.open(path, "w", encoding="utf-8", newline="") as fh:
        fh.write(text)
    return finish(res, lambda: rd.warnings, lambda: rd.from_file(path))


def run_dict(value, mode):
    from odml.tools.dict_parser import DictReader
    rd = DictReader(show_warnings=False, ignore_errors=(mode == "lenient"))
    return finish({}, lambda: rd.warnings, lambda: rd.to_odml(value))


def run_dict_text(text, fmt, entry):
    from odml.tools.odmlparser import ODMLReader
    rd = ODMLReader(fmt, show_warnings=False)
    if entry == "odml_string":
        return finish({}, lambda: rd.warnings, lambda: rd.from_string(text))
    path = tmp_path("." + fmt.lower())
    with io.open(path, "w", encoding="utf-8", newline="") as fh:
        fh.write(text)
    return finish({}, lambda: rd.warnings, lambda: rd.from_file(path))


def decode_text(text, fmt):
    """what the text decodes to, done by the harness itself: ('value', v) or ('undecodable', cls)"""
    try:
        with time_limit(TIME_LIMIT):
            if fmt == "JSON":
                return ("value", json.loads(text))
            import yaml
            return ("value", yaml.safe_load(text))
    except _Timeout:
        return ("undecodable", "timeout")
    except Exception as exc:
        return ("undecodable", fw.exc_name(exc))


def format_version():
    from odml.info import FORMAT_VERSION
    return FORMAT_VERSION


def xml_root_ok(text):
    """well-formed XML with an odML root of the current version (decided with lxml directly)"""
    from lxml import etree
    try:
        root = etree.fromstring(text.encode("utf-8"))
    except Exception:
        return False
    return root.tag == "odML" and root.get("version") == format_version()


def dict_root_ok(value):
    return isinstance(value, dict) and isinstance(value.get("Document"), dict) and \
        "odml-version" in value and value.get("odml-version") == format_version()


def dict_shaped(value):
    """'input shaped like an odML dictionary': a mapping (weakest reading)"""
    return isinstance(value, dict)


# ----------------------------------------------------------------------------- model access from the workers
_DRV = {}


def driver_ask(req):
    """one request to a per-process driver (None when the driver is not available)"""
    pid = os.getpid()
    proc = _DRV.get(pid)
    if proc is None:
        exe = os.path.join(fw.BIN, "drv_c16")
        if not os.path.exists(exe):
            return None
        proc = subprocess.Popen([exe], stdin=subprocess.PIPE, stdout=subprocess.PIPE, stderr=subprocess.DEVNULL)
        _DRV.clear()
        _DRV[pid] = proc
    try:
        proc.stdin.write((json.dumps(req, ensure_ascii=True) + "\n").encode("utf-8"))
        proc.stdin.flush()
        ready, _, _ = select.select([proc.stdout], [], [], 60)
        if not ready:
            raise IOError("driver does not answer")
        line = proc.stdout.readline()
        ans = json.loads(line.decode("utf-8"))
    except Exception:
        _DRV.pop(pid, None)
        try:
            proc.kill()
        except Exception:
            pass
        return None
    return ans.get("r")


def real_from_csv():
    try:
        from odml.tools.xmlparser import from_csv
        return from_csv
    except ImportError:
        return None


def csv_failures(node, out):
    """texts of the tree on which the real from_csv raises"""
    f = real_from_csv()
    if f is None or "o" in node:
        return
    txt = node["x"]
    if txt and txt not in out:
        try:
            f(txt)
        except Exception:
            out.append(txt)
    for k in node["k"]:
        csv_failures(k, out)


KIND_CLASS = {"odML": "Document", "section": "Section", "property": "Property"}


def ask_constructor(kind, kwargs):
    """does the real constructor raise on these keyword arguments; which name does the object report
    when it was not given one (None = a fresh uuid each time)"""
    import odml
    klass = getattr(odml, KIND_CLASS[kind])
    try:
        o1 = klass(**kwargs)
    except Exception:
        return True, None
    auto = None
    if kind != "odML":
        try:
            o2 = klass(**kwargs)
            if isinstance(o1.name, str) and o1.name == o2.name:
                auto = o1.name
        except Exception:
            pass
    return False, auto


def xml_env(tree, csvfail):
    calls = driver_ask({"op": "xml_calls", "tree": tree, "csvfail": csvfail})
    if calls is None:
        return None
    f = real_from_csv()
    env = []
    seen = set()
    for c in calls:
        key = fw.canon(c)
        if key in seen:
            continue
        seen.add(key)
        kwargs = {}
        bad = False
        for k, v in c["args"]:
            if v is None:
                kwargs[k] = None
            elif "s" in v:
                kwargs[k] = v["s"]
            elif "csv" in v:
                if f is None:
                    bad = True
                    break
                kwargs[k] = f(v["csv"])
            else:
                kwargs[k] = tuple(v["card"]) if v["card"] is not None else None
        if bad:
            return None
        fail, auto = ask_constructor(c["kind"], kwargs)
        env.append({"kind": c["kind"], "args": c["args"], "fail": fail, "auto": auto})
    return env


def dict_env(value):
    calls = driver_ask({"op": "dict_calls", "value": value})
    if calls is None:
        return None
    env = []
    for c in calls:
        kwargs = {}
        for k, v in c["args"]:
            if "raw" in v:
                kwargs[k] = to_py(v["raw"])
            else:
                kwargs[k] = tuple(v["card"]) if v["card"] is not None else None
        fail, auto = ask_constructor(c["kind"], kwargs)
        env.append({"kind": c["kind"], "args": c["args"], "fail": fail,
                    "auto": None if auto is None else {"g": auto}})
    return env


# ============================================================================= round 2: oracle-only streams
# Dimensions of the property's quantifier that the streams above do not reach (see design.d/C16.md,
# "Strengthening after seeded round 2"):
#   xml_file  byte encoding of the input (declared encoding, BOM, 8/16/32 bit, unsupported and wrong
#             declarations) x shape of the entry point (path, relative path, odd file names, binary / text
#             file objects, in-memory streams, bytes and str strings, ODMLReader, odml.load,
#             xmlparser.load) x reader options (show_warnings, filename) x XML-level features (DOCTYPE and
#             entities, CDATA, character references, namespaces, PIs, comments, line ends) x the extended
#             text pools (non-ASCII, NEL / U+2028, multi-digit numbers, years < 1000, lone surrogates)
#   keepx     valid documents (non-ASCII names) + one injected fault through the same entry points
#   dict_py   Python values that are no JSON trees (tuples, dates, bytes, sets, OrderedDict, non-string
#             keys, shared sub-objects, nan / huge numbers), YAML-only constructs, text decorations,
#             ODMLReader / odml.load with their default show_warnings=True
#   reuse     one reader object used for several inputs (state left by refused and failed calls)
#   sub       the same cases in a process with another locale (C / ASCII) and hash seed
# The Lean model does not cover them: model_requests returns [] and the oracle alone decides.

XML_ENTRIES = ["file", "file", "file_rb", "bytesio", "file_rt", "stringio", "string", "bytes", "odml_file",
               "odml_string", "odml_bytes", "load", "load", "load_backend", "xp_load",
               # round 3: further shapes of the same entry points
               "file_pathlib", "file_bytespath", "bytearray", "memoryview", "load_pathlib", "odml_file_rb"]
STR_ENTRIES = ("file_rt", "stringio", "string", "odml_string")        # the reader is given decoded text
PATH_ENTRIES = ("file", "odml_file", "load", "load_backend", "xp_load", "file_pathlib", "file_bytespath", "load_pathlib")
FILEISH = PATH_ENTRIES + ("file_rb", "bytesio", "odml_file_rb")        # lxml decodes the bytes of a file
LENIENT_ENTRIES = ("odml_file", "load", "load_backend", "load_pathlib", "odml_file_rb")    # always ignore_errors=True
STRICT_ENTRIES = ("odml_string", "odml_bytes", "xp_load")              # always ignore_errors=False

# codec used to write the bytes, encoding named in the XML declaration (None: no declaration, "": a
# declaration without encoding), BOM, faithful (the bytes are the text in the encoding that the XML rules
# detect: BOM, else declaration, else UTF-8), same (... and decode to the text that was written)
ENC_UTF8 = [("utf-8", None, False, True, True), ("utf-8", "UTF-8", False, True, True),
            ("utf-8", "utf-8", False, True, True), ("utf-8", "UTF8", False, True, True),
            ("utf-8", "", False, True, True), ("utf-8", None, True, True, True), ("utf-8", "UTF-8", True, True, True)]
ENC_OTHER = [("latin-1", "ISO-8859-1", False, True, True), ("latin-1", "iso-8859-1", False, True, True),
             ("latin-1", "latin1", False, True, True), ("cp1252", "windows-1252", False, True, True),
             ("iso8859-15", "ISO-8859-15", False, True, True), ("iso8859-2", "ISO-8859-2", False, True, True),
             ("cp1251", "windows-1251", False, True, True), ("koi8-r", "KOI8-R", False, True, True),
             ("mac-roman", "macintosh", False, True, True),
             ("ascii", "US-ASCII", False, True, True), ("ascii", None, False, True, True),
             ("ascii", "UTF-8", False, True, True), ("ascii", "ISO-8859-1", False, True, True),
             ("utf-16-le", "UTF-16", True, True, True), ("utf-16-be", "UTF-16", True, True, True),
             ("utf-16-le", None, True, True, True), ("utf-16-be", None, True, True, True),
             ("utf-16-le", "UTF-16LE", False, True, True), ("utf-16-be", "UTF-16BE", False, True, True),
             ("utf-32-le", "UTF-32", True, True, True), ("utf-32-le", "UTF-32LE", False, True, True),
             ("utf-32-be", "UCS-4", False, True, True),
             ("shift_jis", "Shift_JIS", False, True, True), ("euc-jp", "EUC-JP", False, True, True),
             ("gb2312", "GB2312", False, True, True), ("big5", "Big5", False, True, True),
             ("cp437", "IBM437", False, True, True), ("cp037", "IBM037", False, True, True),
             ("utf-8", "ISO-8859-1", False, True, False)]
ENC_WRONG = [("latin-1", "UTF-8", False, False, False), ("latin-1", None, False, False, False),
             ("cp1252", "US-ASCII", False, False, False), ("utf-8", "UTF-16", False, False, False),
             ("utf-16-le", "UTF-8", True, False, False), ("utf-16-le", "UTF-16", False, False, False),
             ("utf-8", "klingon", False, False, False), ("utf-16-be", "UTF-16LE", False, False, False),
             ("utf-8", "UTF-32", False, False, False), ("latin-1", "UTF-8", True, False, False)]
BOMS = {"utf-8": b"\xef\xbb\xbf", "utf-16-le": b"\xff\xfe", "utf-16-be": b"\xfe\xff",
        "utf-32-le": b"\xff\xfe\x00\x00", "utf-32-be": b"\x00\x00\xfe\xff", "latin-1": b"\xef\xbb\xbf"}
FNAMES = ["", "", " a b", u"_\xe9\u65e5", "_%41#b?c&d", "_x;y+z%zz", "rel"]
FNAMES_ASCII = ["", " a b", "_%41#b?c&d", "rel"]


def gen_xspec(rng, ascii_names=False):
    entry = rng.choice(XML_ENTRIES)
    r = rng.random()
    if entry in STR_ENTRIES or r < 0.4:
        enc = rng.choice(ENC_UTF8)
    elif r < 0.85:
        enc = rng.choice(ENC_OTHER)
    else:
        enc = rng.choice(ENC_WRONG)
    return {"codec": enc[0], "decl": enc[1], "bom": enc[2], "faithful": enc[3], "same": enc[4],
            "entry": entry, "mode": rng.choice(["strict", "lenient"]), "sw": rng.random() < 0.4,
            "fn": rng.choice([None, None, "x.xml", u"http://example.invalid/\xe9.xml", "100%.xml", "%s.xml", "{0}.xml",
                              "C:\\new\\x.xml", "it's.xml"]),
            "fname": rng.choice(FNAMES_ASCII if ascii_names else FNAMES),
            "nl": rng.choice(["\n", "\n", "\n", "\r\n", "\r"])}


def x_lenient(x):
    if x["entry"] in LENIENT_ENTRIES:
        return True
    if x["entry"] in STRICT_ENTRIES:
        return False
    return x["mode"] == "lenient"


# ---- XML-level features around a generated tree -----------------------------------------------------------
DOCTYPES = [
    '<!DOCTYPE odML>',
    '<!DOCTYPE odML SYSTEM "odml.dtd">',
    '<!DOCTYPE odML PUBLIC "-//G-Node//DTD odML 1.1//EN" "http://example.invalid/odml.dtd">',
    '<!DOCTYPE odML [<!ENTITY e1 "txt"><!ENTITY e2 "&e1;,&e1;">'
    '<!ENTITY sec "<section><name>ent</name><type>t</type></section>">]>',
    '<!DOCTYPE odML [<!ENTITY e1 "[1,2]"><!ENTITY e2 "(&e1;)">'
    '<!ENTITY sec "<property><name>entp</name><value>&e1;</value></property>">]>',
    '<!DOCTYPE odML [<!ENTITY e1 "aaaaaaaaaa"><!ENTITY e2 "&e1;&e1;&e1;&e1;&e1;&e1;&e1;&e1;&e1;&e1;">'
    '<!ENTITY e3 "&e2;&e2;&e2;&e2;&e2;&e2;&e2;&e2;&e2;&e2;"><!ENTITY e4 "&e3;&e3;&e3;&e3;&e3;&e3;&e3;&e3;&e3;&e3;">'
    '<!ENTITY e5 "&e4;&e4;&e4;&e4;&e4;&e4;&e4;&e4;&e4;&e4;"><!ENTITY big "&e5;&e5;&e5;&e5;&e5;&e5;&e5;&e5;&e5;&e5;">'
    '<!ENTITY sec "&big;">]>',
    '<!DOCTYPE odML [<!ENTITY e1 SYSTEM "file:///etc/hostname"><!ENTITY e2 SYSTEM "http://example.invalid/x">'
    '<!ENTITY sec SYSTEM "file:///nonexistent/odml.xml">]>',
    '<!DOCTYPE odML [<!ENTITY e1 "&e2;"><!ENTITY e2 "&e1;"><!ENTITY sec "&sec;">]>',
    '<!DOCTYPE odML [<!ELEMENT odML ANY><!ATTLIST odML version CDATA "1.1"><!ENTITY e1 "x">]>',
    '<!DOCTYPE odML [<!ENTITY % p "<!ENTITY e1 \'pe\'>">%p;]>',
    '<!DOCTYPE section [<!ENTITY e1 "x">]>',
]
PROLOG = ['<?xml-stylesheet type="text/xsl" href="odmlDocument.xsl"?>', '<!-- written by a tool -->', '<?pi?>', '\n', '  ']
EPILOG = ['<!-- end -->', '<?pi data?>', '\n\n', ' ', 'junk', '<odML version="1.1"/>', '\x00']
ROOT_ATTRS = [' xmlns:xsi="http://www.w3.org/2001/XMLSchema-instance" xsi:noNamespaceSchemaLocation="odml.xsd"',
              ' xml:lang="en"', ' xml:space="preserve"', ' xmlns="http://www.g-node.org/odml"',
              ' xmlns:gn="http://www.g-node.org/odml"', " version='1.1'", ' VERSION="1.1"']


def feat_text(s, o, rng):
    if s is None:
        return ""
    if o["cdata"] and rng.random() < 0.3 and "]]>" not in s:
        return "<![CDATA[" + s + "]]>"
    out = []
    for c in s:
        if c in XML_ESC:
            out.append(XML_ESC[c])
        elif o["charref"] and rng.random() < 0.15:
            out.append("&#%d;" % ord(c) if rng.random() < 0.5 else "&#x%X;" % ord(c))
        else:
            out.append(c)
    if o["entity"] and rng.random() < 0.15:
        out.insert(rng.randrange(0, len(out) + 1), rng.choice(["&e1;", "&e2;", "&e1;", "&undefined;", "&big;", "&#0;"]))
    return "".join(out)


def ser_feat(node, o, rng, depth=0):
    pad = ("\n" + "  " * depth) if o["indent"] else ""
    if "o" in node:
        return pad + {"pi": "<?target data?>", "comment": "<!-- note -->", "entity": "&sec;"}[node["o"]]
    tag, nsdecl = ser_tag(node["t"])
    if o["prefix"] and rng.random() < 0.1:
        tag = "gn:" + tag
    out = pad + "<" + tag + nsdecl + "".join(' %s="%s"' % (k, esc(v)) for k, v in node["a"])
    if depth == 0:
        out += o["rootattr"]
    kids = list(node["k"])
    if o["entity"] and kids and rng.random() < 0.2:
        kids.insert(rng.randrange(0, len(kids) + 1), {"o": "entity"})
    inner = feat_text(node["x"], o, rng) + "".join(ser_feat(k, o, rng, depth + 1) for k in kids)
    if not inner and node["x"] is None:
        return out + "/>"
    if kids and o["indent"]:
        inner += "\n" + "  " * depth
    return out + ">" + inner + "</" + tag + ">"


def feat_document(tree, rng):
    o = {"indent": rng.random() < 0.4, "cdata": rng.random() < 0.3, "charref": rng.random() < 0.3,
         "entity": rng.random() < 0.35, "prefix": rng.random() < 0.1,
         "rootattr": rng.choice(ROOT_ATTRS) if rng.random() < 0.25 else ""}
    pre = ""
    if o["entity"] or rng.random() < 0.15:
        pre += rng.choice(DOCTYPES[3:] if o["entity"] and rng.random() < 0.85 else DOCTYPES)
    for _ in range(rng.randrange(0, 3)):
        piece = rng.choice(PROLOG)
        pre = (piece + pre) if rng.random() < 0.5 else (pre + piece)
    post = ""
    if rng.random() < 0.2:
        post = rng.choice(EPILOG)
    return pre + ser_feat(tree, o, rng) + post


BOUNDARY_BODIES = ["", " ", "\n", "\t\n ", "<", "<odML", "<odML/>", '<odML version="1.1"/>', '<odML version="1.1"></odML>',
                   '<odML version="1.1"> </odML>', '<odML version="1.1">text</odML>', '<odML version="1.1"><section/></odML>',
                   '<odML version="1.1"><property/></odML>', '<odML version="1.1"><odML version="1.1"/></odML>', "<a/>",
                   '<odML version=""/>', "<odML version='1.1' version='1.1'/>", '<odML version="1.1"/><odML version="1.1"/>',
                   "\x00", "huge", "many", "many", "many"]


def gen_xml_body(rng, res):
    """a text without XML declaration (the declaration is part of the encoding spec of the case)"""
    r = rng.random()
    spiced = (lambda t: spice_xml(t, rng, False) if rng.random() < 0.35 else t)      # round 3
    if r < 0.4:
        _X[0] = True
        try:
            return feat_document(spiced(gen_xml_doc(rng)), rng)
        finally:
            _X[0] = False
    if r < 0.6:
        _X[0] = True
        try:
            return serialize(spiced(gen_xml_doc(rng)))
        finally:
            _X[0] = False
    if r < 0.7:
        return serialize(spiced(gen_xml_doc(rng)))
    if r < 0.85 and res["XML"]:
        text = rng.choice(res["XML"])
        if rng.random() < 0.7:
            text = mutate_text(text, rng)
        return re.sub(r"^<\?xml[^>]*\?>\s*", "", text)
    if r < 0.73:
        # round 3: boundary texts - nothing, white space, a root and nothing else, a single huge text node
        # (libxml2 refuses text nodes above 10^7 characters unless told otherwise), very many siblings
        b = rng.choice(BOUNDARY_BODIES)
        if b == "huge":
            n = rng.choice([10 ** 5, 10 ** 6, 10 ** 7 - 100, 10 ** 7 + 100])
            return '<odML version="1.1"><section><name>s</name><type>t</type><definition>' + "x%" * (n // 2) + \
                   '</definition></section><section><name>after</name><type>t</type></section></odML>'
        if b == "many":
            n = rng.choice([10, 11, 100, 1000, 3000])
            what = rng.choice(['<section><name>s%d</name><type>t</type></section>',
                               '<section><name>s</name><type>t</type><property><name>p%d</name><value>%d</value></property></section>',
                               '<section><type>t%d</type></section>', '<foo>%d</foo>',
                               '<section><name>s</name><type>t</type><section><name>d</name><type>%d</type></section></section>'])
            return '<odML version="1.1">' + "".join(what.replace("%d", str(i)) for i in range(n)) + "</odML>"
        return b
    if r < 0.93:
        depth = rng.choice([3, 30, 120, 199, 200, 256, 400])      # wf_problems treats depth > 200 as a cycle
        return '<odML version="1.1">' + "<section><name>s</name><type>t</type>" * depth + "</section>" * depth + "</odML>"
    return rng.choice(['<odML version="1.1">%s</odML>', "%s"]) % random_text(rng)


VALID_NAMES_X = ["a", "b", u"caf\xe9", u"\u65e5\u672c", "a b", u"\xfc", "10", "9", u"\U0001f600", u"na\xefve", "A", u"\u0130x"]


def gen_valid_doc_x(rng):
    """as gen_valid_doc, names and values beyond ASCII, more siblings (10th element, names compared as text)"""
    def sec(depth, used):
        name = rng.choice([n for n in VALID_NAMES_X if n not in used])
        used.add(name)
        props = []
        pused = set()
        for _ in range(rng.choice([0, 1, 2, 3, 11])):
            free = [n for n in ["p", "q", u"\xe9", u"\u65e5", "10", "2", "p10", "p2", "p1", "P", "r s", "z", "y"] if n not in pused]
            pn = rng.choice(free)
            pused.add(pn)
            props.append([pn, rng.choice([[1, 2], ["x"], [], [1.5], ["a", "b"], [u"caf\xe9", u"\u65e5\u672c"],
                                          [u"a\u2028b"], list(range(12)), ["a,b", "c"], [10 ** 20]])])
        subs = []
        sused = set()
        if depth < 3:
            for _ in range(rng.choice([0, 0, 1, 2, 3, 10 if depth == 1 else 1])):
                if len(sused) < len(VALID_NAMES_X):
                    subs.append(sec(depth + 1, sused))
        return [name, rng.choice(["t", u"typ\xe9", "a/b"]), props, subs]
    used = set()
    return [sec(1, used) for _ in range(rng.randrange(1, 4))]


# ---- running one XML case through an entry point -----------------------------------------------------------------
def x_payload(body, x):
    decl = x["decl"]
    head = ""
    if decl is not None:
        head = '<?xml version="1.0"%s?>\n' % (' encoding="%s"' % decl if decl else "")
    text = head + body
    if x.get("nl", "\n") != "\n":
        text = text.replace("\n", x["nl"])
    data = text.encode(x["codec"], "xmlcharrefreplace")
    if x["bom"]:
        data = BOMS[x["codec"]] + data
        text = u"\ufeff" + text
    return text, data


def lxml_parse_file(path):
    """what lxml itself (default parser, no odML code) makes of the file: root element or the exception class"""
    from lxml import etree
    try:
        return etree.parse(path).getroot(), None
    except Exception as exc:
        return None, fw.exc_name(exc)


def lxml_parse_bytes(data):
    from lxml import etree
    try:
        return etree.fromstring(data), None
    except Exception as exc:
        return None, fw.exc_name(exc)


def str_root(text):
    """decoded text: the XML declaration names the encoding of bytes and means nothing any more"""
    from lxml import etree
    text = re.sub(r"^(\ufeff?<\?xml[^>]*?)\s+encoding\s*=\s*(\"[^\"]*\"|'[^']*')", r"\1", text, count=1)
    try:
        return etree.fromstring(text.encode("utf-8")), None
    except Exception as exc:
        return None, fw.exc_name(exc)


def root_is_ok(root):
    return root is not None and root.tag == "odML" and root.get("version") == format_version()


def run_xml_x(body, x):
    from odml.tools.xmlparser import XMLReader
    from odml.tools.odmlparser import ODMLReader
    import odml
    entry = x["entry"]
    text, data = x_payload(body, x)
    res = {"entry": entry, "sw": bool(x["sw"])}
    lenient = x_lenient(x)
    path = None
    if entry in PATH_ENTRIES or entry in ("file_rb", "file_rt", "odml_file_rb"):
        fname = x["fname"]
        path = tmp_path(("" if fname == "rel" else fname) + ".xml")
        with io.open(path, "wb") as fh:
            fh.write(data)
        if fname == "rel":
            path = os.path.relpath(path)
    # what the input is, decided without the library
    if entry in STR_ENTRIES:
        root, err = str_root(text)
    elif path is not None and entry != "file_rt":
        root, err = lxml_parse_file(path)
        res["lxml_file"] = err
    else:
        root, err = lxml_parse_bytes(data)
        if entry == "bytesio":
            res["lxml_file"] = lxml_parse_file(io.BytesIO(data))[1]
    res["root_ok"] = root_is_ok(root)
    # a file whose bytes are not the text its declaration / BOM announces is no "text": out of the
    # property's scope unless lxml reads it all the same (weaker reading, see design.d/C16.md)
    res["in_scope"] = bool(x["faithful"] or root is not None or entry in STR_ENTRIES)
    res["decl_enc"] = bool(re.match(r"^\ufeff?<\?xml[^>]*encoding", text))
    kw = {"show_warnings": bool(x["sw"])}
    if entry in ("file", "file_rb", "bytesio", "file_rt", "stringio", "string", "bytes", "file_pathlib", "file_bytespath",
                 "bytearray", "memoryview"):
        rd = XMLReader(ignore_errors=lenient, filename=x["fn"], **kw)
        if entry == "file":
            fn = lambda: rd.from_file(path)
        elif entry == "file_pathlib":
            import pathlib
            fn = lambda: rd.from_file(pathlib.Path(path))
        elif entry == "file_bytespath":
            fn = lambda: rd.from_file(os.fsencode(path))
        elif entry == "bytearray":
            fn = lambda: rd.from_string(bytearray(data))
        elif entry == "memoryview":
            fn = lambda: rd.from_string(memoryview(data))
        elif entry == "file_rb":
            fn = lambda: rd.from_file(io.open(path, "rb"))
        elif entry == "bytesio":
            fn = lambda: rd.from_file(io.BytesIO(data))
        elif entry == "file_rt":
            fn = lambda: rd.from_file(io.open(path, "r", encoding="utf-8", newline=""))
        elif entry == "stringio":
            fn = lambda: rd.from_file(io.StringIO(text))
        elif entry == "string":
            fn = lambda: rd.from_string(text)
        else:
            fn = lambda: rd.from_string(data)
        return finish(res, lambda: rd.warnings, fn)
    if entry in ("odml_file", "odml_string", "odml_bytes", "odml_file_rb"):
        rd = ODMLReader(rng_case("XML", "xml", len(body)), **kw)
        if entry == "odml_file":
            fn = lambda: rd.from_file(path)
        elif entry == "odml_file_rb":
            fn = lambda: rd.from_file(io.open(path, "rb"))
        elif entry == "odml_string":
            fn = lambda: rd.from_string(text)
        else:
            fn = lambda: rd.from_string(data)
        return finish(res, lambda: rd.warnings, fn)
    if entry == "load":
        return finish(res, lambda: [], lambda: odml.load(path, **kw))
    if entry == "load_pathlib":
        import pathlib
        return finish(res, lambda: [], lambda: odml.load(pathlib.Path(path), **kw))
    if entry == "load_backend":
        return finish(res, lambda: [], lambda: odml.load(path, rng_case("XML", "xml", len(body)), **kw))
    if entry == "xp_load":
        from odml.tools import xmlparser
        return finish(res, lambda: [], lambda: xmlparser.load(path))
    raise ValueError(entry)


def rng_case(a, b, n):
    """spelling variants of a format name, chosen by a number of the case (no rng in the workers)"""
    return a if n % 2 == 0 else b


def judge(obs, lenient, in_scope, want=None, label=""):
    """the clauses of the property for one reader call"""
    out = []
    outcome = obs.get("outcome")
    if outcome == "timeout":
        return [label + "reader did not return within %d s" % TIME_LIMIT]
    if in_scope and outcome not in ALLOWED:
        out.append(label + "reader ended with %s (neither a Document nor a ParserException)" % outcome)
    if in_scope and lenient and obs.get("root_ok") and outcome != "doc":
        out.append(label + "lenient reader raised %s on well-formed input with a current odML root" % outcome)
    if outcome == "doc":
        for p in obs.get("wf", []):
            out.append(label + "returned document is not well-formed: %s" % p)
        if want is not None:
            have = set(obs.get("paths", []))
            missing = [p for p in want if p not in have]
            if missing:
                out.append(label + "lenient reader dropped valid parts: %s" % missing[:4])
    return out


# ---- dictionaries that are no JSON trees ---------------------------------------------------------------------------
def to_py_x(j, memo=None):
    """to_py plus the tagged forms of XV (tuples, dates, bytes, sets, OrderedDict, any keys, shared objects)"""
    import collections
    import datetime
    if memo is None:
        memo = {}
    if isinstance(j, list):
        return [to_py_x(x, memo) for x in j]
    if isinstance(j, dict):
        if "f" in j:
            return float(j["f"])
        if "o" in j:
            return dict((k, to_py_x(v, memo)) for k, v in j["o"])
        if "tuple" in j:
            return tuple(to_py_x(x, memo) for x in j["tuple"])
        if "set" in j:
            return set(x for x in (to_py_x(y, memo) for y in j["set"]) if isinstance(x, (int, str, float, tuple)))
        if "date" in j:
            return datetime.date(*[int(x) for x in j["date"].split("-")])
        if "datetime" in j:
            return datetime.datetime.strptime(j["datetime"], "%Y-%m-%dT%H:%M:%S")
        if "time" in j:
            return datetime.datetime.strptime(j["time"], "%H:%M:%S").time()
        if "bytes" in j:
            return bytes(bytearray.fromhex(j["bytes"]))
        if "pow10" in j:        # an int with more digits than int <-> str converts (sign of the tag = sign of the int)
            return 10 ** j["pow10"] if j["pow10"] >= 0 else -(10 ** -j["pow10"])
        if "od" in j:
            return collections.OrderedDict((k, to_py_x(v, memo)) for k, v in j["od"])
        if "ok" in j:
            out = {}
            for k, v in j["ok"]:
                k = to_py_x(k, memo)
                try:
                    out[k] = to_py_x(v, memo)
                except TypeError:
                    pass
            return out
        if "shared" in j:
            if j["shared"] not in memo:
                memo[j["shared"]] = to_py_x(j.get("v"), memo)
            return memo[j["shared"]]
    return j


def exoticise(j, rng, counter):
    """rewrite some containers of a generated dictionary document: tuples / sets instead of lists,
    OrderedDict / dictionaries with further keys of any type, the same object at two places"""
    if isinstance(j, list):
        items = [exoticise(x, rng, counter) for x in j]
        if items and isinstance(items[0], dict) and "o" in items[0] and rng.random() < 0.15:
            counter[0] += 1
            first = {"shared": counter[0], "v": items[0]}
            items[0] = first
            items.insert(rng.randrange(1, len(items) + 1), {"shared": counter[0]})
        r = rng.random()
        if r < 0.08:
            return {"tuple": items}
        return items
    if isinstance(j, dict) and "o" in j:
        pairs = [[k, exoticise(v, rng, counter)] for k, v in j["o"]]
        r = rng.random()
        if r < 0.06:
            return {"od": pairs}
        if r < 0.12:
            extra = rng.choice([[1, 2], [None, 1], [True, "x"], [{"tuple": [1, 2]}, 3], [{"f": "1.5"}, 1], [{"bytes": "61"}, 1]])
            pairs.insert(rng.randrange(0, len(pairs) + 1), extra)
            return {"ok": pairs}
        return {"o": pairs}
    return j


YAML_TEXTS = [
    # aliases, merge keys, implicit types, tags, several documents, directives: every construct of YAML
    # that produces something json does not
    "odml-version: '1.1'\nDocument:\n  sections:\n  - &a {name: s, type: t}\n  - *a\n",
    "odml-version: '1.1'\nDocument:\n  sections:\n  - &a {name: s, type: t, properties: [&p {name: p, value: [1]}, *p]}\n  - {<<: *a, name: u}\n",
    "odml-version: '1.1'\nDocument:\n  sections:\n  - name: s\n    type: t\n    properties: &ps\n    - {name: p}\n  - name: u\n    type: t\n    properties: *ps\n",
    "odml-version: '1.1'\nDocument:\n  date: 2020-01-02\n  sections:\n  - {name: 2020-01-02, type: t}\n  - {name: 1, type: t}\n  - {name: 1.5, type: t}\n",
    "odml-version: '1.1'\nDocument:\n  sections:\n  - {name: yes, type: no}\n  - {name: ~, type: null}\n  - {name: 0x10, type: 010}\n  - {name: 1e3, type: .inf}\n",
    "odml-version: '1.1'\nDocument:\n  date: 2020-01-02 10:00:00\n  sections: []\n",
    "odml-version: '1.1'\nDocument:\n  author: !!binary aGVsbG8=\n  sections:\n  - {name: !!binary cw==, type: t}\n",
    "odml-version: '1.1'\nDocument:\n  sections: !!set {a, b}\n",
    "odml-version: '1.1'\nDocument: !!omap\n  - sections: []\n",
    "odml-version: '1.1'\nDocument:\n  sections: !!omap\n  - name: s\n",
    "odml-version: '1.1'\nDocument:\n  author: !!python/unicode 'x'\n  sections:\n  - {name: !!python/unicode 'n', type: !!str 1}\n",
    "odml-version: '1.1'\nodml-version: '1'\nDocument:\n  sections: []\n",
    "odml-version: '1.1'\nDocument:\n  sections: []\nDocument:\n  sections:\n  - {name: s, type: t}\n",
    "odml-version: 1.1\nDocument:\n  sections: []\n",
    "odml-version: '1.1'\nDocument:\n  sections:\n  - name: s\n    type: t\n    properties:\n    - name: p\n      value: [2020-01-02, 10:00:00, 1_000, 0o17, 1:30]\n      dependency: true\n",
    "odml-version: '1.1'\nDocument:\n  sections:\n  - name: s\n    type: t\n    properties:\n    - {name: p, dependency: 1}\n",
    "odml-version: '1.1'\nDocument:\n  sections:\n  - name: s\n    type: t\n    sec_cardinality: [10, 2]\n    prop_cardinality: !!python/tuple [1, 2]\n",
    "odml-version: '1.1'\nDocument:\n  sections:\n  - name: |\n      multi\n      line\n    type: >\n      folded\n      text\n",
    "odml-version: '1.1'\nDocument:\n  sections:\n  - {name: \"caf\\xe9 \\u2028 \\U0001F600\", type: t}\n  - {name: \"\\0\", type: t}\n",
    "odml-version: '1.1'\nDocument:\n  ? sections\n  : - {name: s, type: t}\n  ? [a, b]\n  : 1\n",
    "odml-version: '1.1'\nDocument:\n  1: 2\n  ~: 3\n  true: 4\n  sections:\n  - {name: s, type: t, 2020-01-02: x, 1.5: y}\n",
    "{odml-version: '1.1', Document: {sections: [{name: s, type: t, sections: [{name: s, type: t}, {name: s, type: t}]}]}}\n",
    "odml-version: '1.1'\nDocument: {}\n",
    "odml-version: '1.1'\nDocument: []\n",
    "odml-version: '1.1'\nDocument:\n",
    "- odml-version: '1.1'\n- Document: {}\n",
]
TEXT_DECO = ["%s", "%s", "%s", "%%YAML 1.1\n---\n%s", "---\n%s...\n", u"\ufeff%s", "# comment\n%s# end\n", "\n\n%s\n\n",
             "%s---\na: 1\n", "--- !!map\n%s", " %s"]


def gen_dict_py(rng):
    """one dict_py case"""
    sw = rng.random() < 0.6
    r = rng.random()
    if r < 0.2:
        text = rng.choice(TEXT_DECO) % rng.choice(YAML_TEXTS)
        if rng.random() < 0.3:
            text = text.replace("\n", "\r\n")
        return {"stream": "dict_py", "text": text, "format": "YAML",
                "entry": rng.choice(["odml_string", "odml_file", "load"]), "sw": sw}
    counter = [0]
    _X[0] = r < 0.7
    try:
        val = gen_dict_doc(rng)
    finally:
        _X[0] = False
    if rng.random() < 0.3:
        val = spice_dict(val, rng, False)               # round 3
    if r < 0.85:
        val = exoticise(val, rng, counter)
    return {"stream": "dict_py", "value": val, "via": rng.choice(["direct", "direct", "JSON", "YAML", "YAML"]),
            "entry": rng.choice(["odml_string", "odml_file", "load"]), "mode": rng.choice(["strict", "lenient"]),
            "sw": sw, "deco": rng.randrange(0, 1000)}


def dump_text(val, via, deco):
    """the value as JSON / YAML text, or None when the format cannot express it"""
    try:
        if via == "JSON":
            text = json.dumps(val, ensure_ascii=(deco % 2 == 0), indent=[None, 1, 4][deco % 3])
            text = ["%s", " %s\n", "%s\n\n", "\n%s"][deco % 4] % text
        else:
            import yaml
            text = yaml.safe_dump(val, sort_keys=False, allow_unicode=(deco % 2 == 0),
                                  default_flow_style=[False, None, True][deco % 3])
            text = TEXT_DECO[deco % 8] % text
        text.encode("utf-8")
        return text
    except Exception:
        return None


def doc_flags(doc):
    """shapes of a returned document that the known findings are keyed on"""
    flags = {"nonstr_name": False, "nonstr_dep": False}

    def walk(sec):
        for p in sec.properties:
            if not isinstance(p.name, str):
                flags["nonstr_name"] = True
            if p.dependency is not None and not isinstance(p.dependency, str):
                flags["nonstr_dep"] = True
        for s in sec.sections:
            if not isinstance(s.name, str):
                flags["nonstr_name"] = True
            walk(s)
    for s in doc.sections:
        if not isinstance(s.name, str):
            flags["nonstr_name"] = True
        walk(s)
    return flags


def dict_text_call(text, fmt, entry, sw, suffix=""):
    """-> (thunk, warnings accessor) for one of the text entry points of the dictionary formats"""
    from odml.tools.odmlparser import ODMLReader
    import odml
    if entry == "odml_string":
        rd = ODMLReader(fmt, show_warnings=sw)
        return (lambda: rd.from_string(text)), (lambda: rd.warnings)
    path = tmp_path(suffix + "." + fmt.lower())
    with io.open(path, "w", encoding="utf-8", newline="") as fh:
        fh.write(text)
    if entry == "odml_file":
        rd = ODMLReader(fmt, show_warnings=sw)
        return (lambda: rd.from_file(path)), (lambda: rd.warnings)
    return (lambda: odml.load(path, fmt if len(text) % 2 else fmt.lower(), show_warnings=sw)), (lambda: [])


def run_dict_py(case):
    from odml.tools.dict_parser import DictReader
    import odml
    sw = bool(case["sw"])
    res = {"sw": sw}
    if "text" in case:
        fmt, entry, text = case["format"], case["entry"], case["text"]
    else:
        val = to_py_x(case["value"])
        via = case["via"]
        text = dump_text(val, via, case["deco"]) if via != "direct" else None
        if text is None:
            rd = DictReader(show_warnings=sw, ignore_errors=(case["mode"] == "lenient"))
            res.update({"via": "direct", "shaped": dict_shaped(val), "root_ok": dict_root_ok(val),
                        "lenient": case["mode"] == "lenient", "decoded": "value"})
            finish(res, lambda: rd.warnings, lambda: rd.to_odml(val))
            if res["outcome"] not in ALLOWED and sw:
                rd2 = DictReader(show_warnings=False, ignore_errors=(case["mode"] == "lenient"))
                quiet_rerun(res, lambda: rd2.to_odml(val))
            return res
        fmt, entry = via, case["entry"]
    res["via"] = fmt
    res["entry"] = entry
    kind, val = decode_text(text, fmt)
    res["decoded"] = kind
    if kind == "value":
        res["shaped"] = dict_shaped(val)
        res["root_ok"] = dict_root_ok(val)
    res["lenient"] = fmt == "YAML" and entry in ("odml_file", "load")
    fn, warn = dict_text_call(text, fmt, entry, sw)
    finish(res, warn, fn)
    if res["outcome"] not in ALLOWED and sw:
        fn2, _ = dict_text_call(text, fmt, entry, False)
        quiet_rerun(res, fn2)
    return res


def quiet_rerun(res, fn):
    """the same call with show_warnings=False (tells a leak of the readers from one of the validation report)"""
    import odml
    try:
        with time_limit(TIME_LIMIT):
            doc = fn()
    except _Timeout:
        res["quiet_outcome"] = "timeout"
        return
    except Exception as exc:
        res["quiet_outcome"] = fw.exc_name(exc)
        return
    if isinstance(doc, odml.doc.BaseDocument):
        res["quiet_outcome"] = "doc"
        try:
            res.update(doc_flags(doc))
        except Exception:
            pass
    else:
        res["quiet_outcome"] = "returned:" + type(doc).__name__


# ---- one reader object, several inputs ------------------------------------------------------------------------------
READERS = ["xml_strict", "xml_lenient", "xml_lenient", "odml_xml", "odml_json", "odml_yaml", "dict_strict",
           "dict_lenient", "dict_lenient"]


def gen_reuse(rng, res):
    reader = rng.choice(READERS)
    steps = []
    for _ in range(rng.randrange(2, 5)):
        r = rng.random()
        if r < 0.45:
            steps.append({"kind": "valid", "desc": gen_valid_doc(rng) if rng.random() < 0.5 else gen_valid_doc_x(rng)})
        elif r < 0.8:
            if reader.startswith(("xml", "odml_xml")):
                tree = gen_xml_doc(rng)
                steps.append({"kind": "tree", "tree": spice_xml(tree, rng, False) if rng.random() < 0.3 else tree})
            else:
                val = gen_dict_doc(rng)
                steps.append({"kind": "dict", "value": spice_dict(val, rng, True) if rng.random() < 0.3 else val})
        else:
            fmt = {"odml_json": "JSON", "odml_yaml": "YAML"}.get(reader, "XML")
            pool = res.get(fmt) or [""]
            text = mutate_text(rng.choice(pool), rng) if rng.random() < 0.6 else random_text(rng)
            steps.append({"kind": "text", "text": text})
        steps[-1]["via"] = rng.choice(["string", "file"])
    return {"stream": "reuse", "reader": reader, "sw": rng.random() < 0.3, "steps": steps}


def run_reuse(case):
    from odml.tools.xmlparser import XMLReader
    from odml.tools.odmlparser import ODMLReader, ODMLWriter
    from odml.tools.dict_parser import DictReader
    import odml
    import yaml
    reader = case["reader"]
    sw = bool(case["sw"])
    fmt = {"odml_json": "JSON", "odml_yaml": "YAML"}.get(reader, "XML")
    if reader in ("xml_strict", "xml_lenient"):
        rd = XMLReader(ignore_errors=(reader == "xml_lenient"), show_warnings=sw)
    elif reader in ("dict_strict", "dict_lenient"):
        rd = DictReader(ignore_errors=(reader == "dict_lenient"), show_warnings=sw)
    else:
        rd = ODMLReader(fmt, show_warnings=sw)
    out = []
    docs = []
    for i, st in enumerate(case["steps"]):
        o = {"sw": sw, "in_scope": True}
        want = None
        value = text = None
        if st["kind"] == "valid":
            doc = build_doc(st["desc"])
            want = desc_paths(st["desc"])
            if reader.startswith("dict"):
                text = ODMLWriter("JSON").to_string(doc)
                value = json.loads(text)
            else:
                text = ODMLWriter(fmt).to_string(doc)
        elif st["kind"] == "tree":
            text = serialize(st["tree"])
        elif st["kind"] == "dict":
            value = to_py(st["value"])
            if not reader.startswith("dict"):
                if not (json_like(value) and isinstance(value, (dict, list))):
                    o["skipped"] = "value has no text form"
                    out.append(o)
                    continue
                text = json.dumps(value) if fmt == "JSON" else yaml.safe_dump(value, sort_keys=False)
        else:
            text = st["text"]
            if reader.startswith("dict"):
                kind, value = decode_text(text, "JSON")
                if kind != "value":
                    o["skipped"] = "undecodable"
                    out.append(o)
                    continue
        via = st["via"]
        if reader.startswith("dict"):
            o["lenient"] = reader == "dict_lenient"
            o["in_scope"] = dict_shaped(value)
            o["root_ok"] = dict_root_ok(value)
            mk = lambda r, value=value: (lambda: r.to_odml(value))
        else:
            if fmt == "XML":
                o["root_ok"] = root_is_ok(str_root(text)[0])
                if reader == "odml_xml":
                    o["lenient"] = via == "file"
                else:
                    o["lenient"] = reader == "xml_lenient"
            else:
                kind, val = decode_text(text, fmt)
                o["via"] = fmt
                o["in_scope"] = kind == "value" and dict_shaped(val)
                o["root_ok"] = kind == "value" and dict_root_ok(val)
                o["lenient"] = fmt == "YAML" and via == "file"
            if via == "file":
                try:
                    text.encode("utf-8")
                except UnicodeError:
                    via = "string"
            if via == "file":
                path = tmp_path("_r%d.%s" % (i, fmt.lower()))
                with io.open(path, "w", encoding="utf-8", newline="") as fh:
                    fh.write(text)
                if fmt == "XML":
                    # the declaration of a file counts (it is the encoding of its bytes)
                    o["root_ok"] = root_is_ok(lxml_parse_file(path)[0])
                mk = lambda r, path=path: (lambda: r.from_file(path))
            else:
                mk = lambda r, text=text: (lambda: r.from_string(text))
        holder = []
        fn = mk(rd)

        def call(fn=fn, holder=holder):
            d = fn()
            holder.append(d)
            return d
        finish(o, lambda: rd.warnings, call)
        if o["outcome"] not in ALLOWED and sw and reader in ("odml_json", "odml_yaml"):
            quiet_rerun(o, mk(ODMLReader(fmt, show_warnings=False)))
        if want is not None:
            o["want"] = want
        if o.get("outcome") == "doc" and holder:
            docs.append((i, holder[0]))
        out.append(o)
    # documents handed out earlier are still intact and share nothing with later ones
    after = []
    seen = {}
    for i, d in docs:
        try:
            with time_limit(TIME_LIMIT):
                for p in wf_problems(d):
                    after.append("document of step %d after the later reads: %s" % (i, p))
                stack = [d]
                while stack:
                    n = stack.pop()
                    if id(n) in seen and seen[id(n)] != i:
                        after.append("documents of steps %d and %d share an object" % (seen[id(n)], i))
                        break
                    seen[id(n)] = i
                    stack.extend(getattr(n, "sections", []))
                    stack.extend(getattr(n, "properties", []))
        except Exception as exc:
            after.append("inspecting the document of step %d raised %s" % (i, fw.exc_name(exc)))
    return {"steps": out, "after": after[:5]}


# ============================================================================= round 3: what the texts contain
# Dimension that was missing (design.d/C16.md, "Strengthening after seeded round 3"): the CHARACTERS of the
# texts. Every pool above is made of words, numbers and punctuation that mean something to odML (brackets,
# commas, quotes for the value lists) - none of them means anything to the machinery the readers use to
# report a problem (printf-style and str.format templates, string.Template, re replacement strings,
# backslash escapes, repr of the parsed content, paths / URLs). "Any text" includes "100% pure", "{0}",
# "C:\temp", "it's". Two mechanisms:
#   spice_xml / spice_dict   rewrite the texts (element texts, attribute values, dictionary strings and keys,
#                            names) of a generated tree with tokens of ONE family, at a random rate; applied
#                            to a share of the trees of every tree stream (modelled streams: printable ASCII
#                            tokens only, the model treats texts as opaque apart from strip / lower / digits)
#   stream fault             a valid document + a fault drawn from a grammar  problem kind x location x
#                            number of copies x distance (lines) from the start x texts carried by the
#                            faulty object, XML and dictionary formats, through the entry points of round 2.
#                            Oracle-only. Additional clause ("every problem is recorded as a warning"): a
#                            lenient read that returns a Document for a fault the reader must object to has
#                            collected at least one warning (only for entry points that expose the warnings).
SPICE = {
    "printf": ["%", "%s", "%d", "%r", "%%", "100% pure", "50 %", "%(name)s", "%(k)", "% d", "%5.2f", "%c", "%x",
               "%*d", "%n", "%s%s%s", "5%", "%)", "%-", "%%%"],
    "format": ["{}", "{0}", "{name}", "{", "}", "{{", "}}", "{0!r}", "{:>10}", "{0.__class__}", "{0[0]}", "{!}",
               "{1}", "{:d}"],
    "template": ["$", "$$", "$name", "${name}", "${", "$1", "#{x}", "<%= x %>", "{{x}}", "{% x %}"],
    "backslash": ["\\", "\\\\", "\\n", "\\u00e9", "\\x", "\\1", "\\g<0>", "\\g<name>", "C:\\temp\\new", "\\N{DASH}",
                  "a\\", "\\'", "\\\"", "\\0", "\\u", "\\U0001F600"],
    "regex": [".*", "(", ")", "[a-", "(?P<n>", "a|b", "^$", "*", "+?", "{1,2}", "(?i)", "[]", "\\d+", "(?#"],
    "quote": ["'", '"', "'''", '"""', "`", "it's", 'say "x"', "'\"", "b'x'", "u'x'", "''", '""', "' or '1'='1"],
    "pyrepr": ["None", "True", "[]", "()", "{}", "{'a': 1}", "[1, 2]", "('a',)", "__class__", "<Section a>",
               "lambda: 0", "nan", "1e999", "0x10", "Ellipsis", "b''", "set()", "..."],
    "markup": ["<name>", "</section>", "&amp;", "&", "<", ">", "]]>", "<!--", "-->", "<?pi?>", "&#0;", "&e;",
               "<odML version=\"1.1\">", "<![CDATA["],
    "path": ["../", "/", "..\\", "file://", "#", "?a=b&c", "%41", "%zz", "%2F", "a#b", "http://[::1", "~", "$HOME",
             "*?", "//", "\\\\host\\share", "a:b"],
    "sep": [",", ";", ":", "|", "=", " , ", ";;", "::", "/:", "\t", "a\tb", "a\nb", "\n", " \n "],
}
SPICE_FAMILIES = sorted(SPICE)
SPICE_X = [u"\x85", u"\u2028", u"\xa0", u"\ufeff", u"\u200b", u"\u202e", u"%\xe9", u"{\xe9}", u"\ud800%", u"\\\u65e5",
           u"%\u65e5s", u"\uff05", u"\uff5b\uff5d", u"'\u2019", "\x0b", "\x1f"]


def spice_tokens(rng, model_safe):
    fam = rng.choice(SPICE_FAMILIES)
    toks = list(SPICE[fam])
    if model_safe:
        toks = [t for t in toks if all(32 <= ord(c) < 127 for c in t)]
    elif rng.random() < 0.15:
        toks = toks + SPICE_X
    return fam, toks


def spice_mix(s, toks, rng):
    """how a token enters a text: alone, in front, behind, inside, twice"""
    t = rng.choice(toks)
    r = rng.random()
    if not isinstance(s, str) or s == "" or r < 0.3:
        return t
    if r < 0.5:
        return s + t
    if r < 0.65:
        return t + s
    if r < 0.8:
        i = rng.randrange(0, len(s) + 1)
        return s[:i] + t + s[i:]
    if r < 0.9:
        return s + " " + t + " " + rng.choice(toks)
    return t + s + t


def spice_xml(tree, rng, model_safe=False):
    """a copy of the abstract XML tree with texts and attribute values rewritten (structure untouched)"""
    _, toks = spice_tokens(rng, model_safe)
    rate = rng.choice([0.15, 0.3, 0.6, 1.0])

    def walk(n, depth):
        if "o" in n:
            return n
        n = {"t": n["t"], "a": [list(a) for a in n["a"]], "x": n["x"], "k": n["k"]}
        leaf = not any("o" not in k and k["t"].lower() in ("section", "property") for k in n["k"])
        if leaf and n["t"].lower() not in ("section", "property", "odml") and rng.random() < rate:
            n["x"] = spice_mix(n["x"], toks, rng)
        elif not leaf and rng.random() < rate * 0.1:
            n["x"] = spice_mix(n["x"], toks, rng)             # text directly inside an object element
        for a in n["a"]:
            if not (depth == 0 and a[0] == "version") and rng.random() < rate:
                a[1] = spice_mix(a[1], toks, rng)
        if depth == 0 and rng.random() < 0.03:
            n["a"] = [[a[0], spice_mix(a[1], toks, rng)] for a in n["a"]]     # also the format version
        if rng.random() < rate * 0.08 and not any(a[0] == "foo" for a in n["a"]):
            n["a"].append(["foo", rng.choice(toks)])
        n["k"] = [walk(k, depth + 1) for k in n["k"]]
        return n
    return walk(tree, 0)


def spice_dict(j, rng, model_safe=False):
    """a copy of the encoded dictionary document with string values and some keys rewritten"""
    _, toks = spice_tokens(rng, model_safe)
    rate = rng.choice([0.15, 0.3, 0.6, 1.0])

    def walk(v, depth):
        if isinstance(v, str):
            return spice_mix(v, toks, rng) if rng.random() < rate else v
        if isinstance(v, list):
            return [walk(x, depth + 1) for x in v]
        if isinstance(v, dict) and "o" in v:
            pairs = []
            for k, x in v["o"]:
                if depth == 0:                      # 'Document' / 'odml-version': the root check is not the point
                    pairs.append([k, walk(x, depth + 1) if k == "Document" else x])
                    continue
                if k in WRONG_KEYS and rng.random() < rate:
                    k = spice_mix(k, toks, rng)
                pairs.append([k, walk(x, depth + 1)])
            if depth > 0 and rng.random() < rate * 0.15:
                pairs.insert(rng.randrange(0, len(pairs) + 1), [rng.choice(toks), rng.choice(toks + [1, None])])
            seen = set()
            return {"o": [p for p in pairs if not (p[0] in seen or seen.add(p[0]))]}
        return v
    return walk(j, 0)


def fault_text(rng, toks):
    """text carried by a faulty object: a word, a token, a sentence with tokens, rarely something long"""
    r = rng.random()
    if r < 0.3:
        return rng.choice(["x", "some text", "7", "mV", "a b"])
    if r < 0.6:
        return rng.choice(toks)
    if r < 0.9:
        return "%s %s %s" % (rng.choice(["purity of", "see", "a", ""]), rng.choice(toks), rng.choice(["guaranteed", "", "b"]))
    if r < 0.98:
        return rng.choice(toks) * rng.choice([2, 10, 100])
    return "x" * rng.choice([10 ** 4, 10 ** 5]) + rng.choice(toks)


PROP_EXTRAS = ["definition", "unit", "value", "reference", "dependency", "dependencyvalue", "value_origin"]
SEC_EXTRAS = ["definition", "reference", "repository", "link", "include"]
# problem kinds of the XML reader; True: the reader must object (XMLReader.error / warn is the only way to
# go on), so a lenient read has a warning afterwards; False: the reader may accept the input silently
XML_FAULT_KINDS = [("prop_no_name", True), ("prop_no_name", True), ("sec_no_name", True), ("sec_no_type", True),
                   ("sec_no_name_type", True), ("sec_no_name_child", True), ("unknown_elem", True),
                   ("unknown_elem_in_obj", True), ("attr", True), ("repeat", True), ("bad_value", True),
                   ("bad_csv", False), ("bad_card", False), ("bad_date", False), ("bad_id", False), ("dup", True),
                   ("link_include", False), ("nesting_sec_in_prop", True), ("nesting_value_in_sec", True),
                   ("empty_mandatory", False), ("other_node", False), ("text_in_obj", False)]


def gen_xml_fault(kind, rng, toks, dup_sec, dup_prop, at_doc):
    """abstract tree(s) of one fault; texts come from fault_text"""
    T = lambda: fault_text(rng, toks)

    def extras(pool, lo=1):
        return [elem(t, T()) for t in rng.sample(pool, rng.randrange(lo, 4))]

    def shuffled(kids):
        if rng.random() < 0.5:
            rng.shuffle(kids)
        return kids
    if kind == "prop_no_name":
        return [elem("property", None, shuffled(extras(PROP_EXTRAS)))]
    if kind == "sec_no_name":
        return [elem("section", None, shuffled([elem("type", rng.choice(["t", T()]))] + extras(SEC_EXTRAS[:4], 0)))]
    if kind == "sec_no_type":
        return [elem("section", None, shuffled([elem("name", "zz")] + extras(SEC_EXTRAS[:4])))]
    if kind == "sec_no_name_type":
        return [elem("section", None, shuffled(extras(SEC_EXTRAS[:4])))]
    if kind == "sec_no_name_child":
        child = rng.choice([elem("section", None, [elem("name", T()), elem("type", T())]),
                            elem("property", None, [elem("name", T()), elem("value", T())])])
        return [elem("section", None, shuffled([elem("type", "t"), child] + extras(SEC_EXTRAS[:3], 0)))]
    if kind == "unknown_elem":
        return [elem(rng.choice(["foo", "NAME2", "values", "x.y", "a-b"]), T())]
    if kind == "unknown_elem_in_obj":
        if rng.random() < 0.5:
            return [elem("property", None, [elem("name", "zz"), elem("foo", T())] + extras(PROP_EXTRAS, 0))]
        return [elem("section", None, [elem("name", "zz"), elem("type", "t"), elem("foo", T())] + extras(SEC_EXTRAS[:3], 0))]
    if kind == "attr":
        if rng.random() < 0.5:
            return [elem("section", None, [elem("name", "zz"), elem("type", "t")], [[rng.choice(["foo", "id", "name"]), T()]])]
        return [elem("property", None, [elem("name", "zz"), elem("definition", T())], [["foo", T()]])]
    if kind == "repeat":
        return [elem("property", None, [elem("name", "zz"), elem("definition", T()), elem("definition", T())])]
    if kind == "bad_value":
        return [elem("property", None, shuffled([elem("name", "zz"), elem("type", rng.choice(["int", "float", "date", "boolean", "2-tuple"])),
                                                 elem("value", "[" + T().replace("\r", "") + "q]")]))]
    if kind == "bad_csv":
        return [elem("property", None, [elem("name", "zz"), elem("value", "[a\rb," + T() + "]")])]
    if kind == "bad_card":
        return [elem("property", None, [elem("name", "zz"), elem("val_cardinality", T())]),
                elem("section", None, [elem("name", "zy"), elem("type", "t"), elem(rng.choice(["sec_cardinality", "prop_cardinality"]), T())])]
    if kind == "bad_date":
        return [elem("date", T())] if at_doc else [elem("property", None, [elem("name", "zz"), elem("type", "date"), elem("value", T())])]
    if kind == "bad_id":
        return [elem("section", None, [elem("name", "zz"), elem("type", "t"), elem("id", T())])]
    if kind == "dup":
        out = []
        if dup_sec is not None:
            out.append(elem("section", None, [elem("name", dup_sec), elem("type", "t"), elem("definition", T())]))
        if dup_prop is not None and not at_doc:
            out.append(elem("property", None, [elem("name", dup_prop), elem("definition", T())]))
        return out
    if kind == "link_include":
        return [elem("section", None, [elem("name", "zz"), elem("type", "t"), elem("link", T()), elem("include", T())])]
    if kind == "nesting_sec_in_prop":
        return [elem("property", None, [elem("name", "zz"), elem("section", None, [elem("name", T()), elem("type", "t")]),
                                        elem("definition", T())])]
    if kind == "nesting_value_in_sec":
        return [elem("section", None, [elem("name", "zz"), elem("type", "t"), elem(rng.choice(["value", "unit", "dependency"]), T())])]
    if kind == "empty_mandatory":
        return [elem("section", None, [elem("name", rng.choice([None, " ", "\n"])), elem("type", rng.choice([None, " ", "t"])),
                                       elem("definition", T())]),
                elem("property", None, [elem("name", rng.choice([None, " "])), elem("definition", T())])]
    if kind == "other_node":
        return [{"o": rng.choice(["pi", "comment"])}, elem("section", None, [elem("name", "zz"), elem("type", "t"), {"o": "pi"}])]
    if kind == "text_in_obj":
        return [elem("section", T(), [elem("name", "zz"), elem("type", "t")])]
    raise ValueError(kind)


DICT_FAULT_KINDS = [("unknown_key", True), ("unknown_key_prop", True), ("create_fails", True), ("bad_value", True),
                    ("dup_top", True), ("dup_sub", True), ("dup_prop", True), ("wrong_shape", True),
                    ("string_entry", True), ("bad_date", True), ("texts", False), ("name_token", False)]


def apply_dict_fault(data, kind, rng, toks, first_name):
    """put one fault into the decoded dictionary of a valid document (in place)"""
    T = lambda: fault_text(rng, toks)
    secs = data["Document"].setdefault("sections", [])
    s0 = [x for x in secs if isinstance(x, dict) and x.get("name") == first_name][0]     # the first valid Section
    if kind == "unknown_key":
        rng.choice([s0, data["Document"]])[rng.choice(["foo", T() or "k"])] = rng.choice([T(), 1, None, [T()]])
    elif kind == "unknown_key_prop":
        s0.setdefault("properties", []).insert(0, {"name": "zz", rng.choice(["foo", T() or "k"]): T(), "definition": T()})
    elif kind == "create_fails":
        secs.insert(rng.randrange(0, len(secs) + 1), {"name": "zz", "type": T(), "definition": T(), "section": []})
    elif kind == "bad_value":
        s0.setdefault("properties", []).insert(0, {"name": "zz", "type": rng.choice(["int", "date", "2-tuple"]),
                                                   "definition": T(), "value": [T() + "q"]})
    elif kind == "dup_top":
        secs.append({"name": first_name, "type": "t", "definition": T()})
        secs.append({"name": "yy", "type": "t"})
    elif kind == "dup_sub":
        s0.setdefault("sections", []).extend([{"name": T() or "k", "type": "t"}] * 2)
    elif kind == "dup_prop":
        nm = T() or "k"
        s0.setdefault("properties", []).extend([{"name": nm, "definition": T()}, {"name": nm}])
    elif kind == "wrong_shape":
        s0.setdefault("properties", []).insert(0, rng.choice([[1], None, 5, T()]))
        secs.insert(0, rng.choice([5, None, [T()]]))
    elif kind == "string_entry":
        secs.insert(rng.randrange(0, len(secs) + 1), T())
    elif kind == "bad_date":
        data["Document"]["date"] = T() + "q"
    elif kind == "texts":
        s0["definition"] = T()
        data["Document"]["author"] = T()
        s0.setdefault("properties", []).append({"name": "zz", "unit": T(), "value": [T(), T()], "reference": T()})
    elif kind == "name_token":
        secs.append({"name": T() or "k", "type": T() or "t"})
    else:
        raise ValueError(kind)


def spiced_desc(desc, rng, toks):
    """valid document description whose names / types / string values carry tokens (still valid: no leading or
    trailing white space, sibling names stay different)"""
    def clean(t):
        return "".join(c for c in t if c not in "\r\n\t\x0b\x0c\x1c\x1d\x1e\x1f\x85\u2028\u2029\ud800")

    def nm(n):
        return "%s%s_" % (n, clean(rng.choice(toks))) if rng.random() < 0.4 else n

    def sec(d):
        props = [[nm(p), [(clean(rng.choice(toks)) or "v") if isinstance(v, str) and rng.random() < 0.5 else v for v in vals]]
                 for p, vals in d[2]]
        return [nm(d[0]), d[1], props, [sec(s) for s in d[3]]]
    return [sec(d) for d in desc]


PADS = [0, 0, 0, 0, 1, 100, 65533, 65534, 65535, 65536, 70000]       # lines in front of the fault
COPIES = [1, 1, 1, 1, 2, 3, 30, 300]


def gen_fault(rng, ascii_names=False):
    """one case of the stream fault"""
    _, toks = spice_tokens(rng, False)
    if rng.random() < 0.25:
        toks = ["x", "text", "1"]                 # the plain neighbours: same faults, harmless texts
    desc = gen_valid_doc_x(rng) if rng.random() < 0.5 and not ascii_names else gen_valid_doc(rng)
    if rng.random() < 0.3:
        desc = spiced_desc(desc, rng, toks)
    fmt = rng.choice(["XML", "XML", "XML", "JSON", "YAML"])
    case = {"stream": "fault", "desc": desc, "format": fmt, "toks": toks, "seed": rng.randrange(0, 10 ** 9),
            "copies": rng.choice(COPIES)}
    if fmt == "XML":
        kind, must = rng.choice(XML_FAULT_KINDS)
        x = gen_xspec(rng, ascii_names)
        if rng.random() < 0.6:
            enc = rng.choice(ENC_UTF8)
            x.update({"codec": enc[0], "decl": enc[1], "bom": enc[2], "faithful": enc[3], "same": enc[4]})
        case.update({"kind": kind, "must": must, "x": x, "pad": rng.choice(PADS),
                     "where": rng.choice(["doc_end", "doc_front", "sec_end", "sec_front", "nth_end", "nth_front"]),
                     "nth": rng.randrange(0, 1000)})
    else:
        kind, must = rng.choice(DICT_FAULT_KINDS)
        case.update({"kind": kind, "must": must, "mode": rng.choice(["strict", "lenient", "lenient"]),
                     "sw": rng.random() < 0.4, "via": rng.choice(["direct", "direct", "text"]),
                     "entry": rng.choice(["odml_string", "odml_file", "load"]), "deco": rng.randrange(0, 1000)})
    return case


def run_fault(case):
    import random
    from odml.tools.odmlparser import ODMLWriter
    from odml.tools.dict_parser import DictReader
    rng = random.Random(case["seed"])
    toks = case["toks"]
    desc = case["desc"]
    doc = build_doc(desc)
    fmt = case["format"]
    want = desc_paths(desc)
    try:
        text = ODMLWriter(fmt).to_string(doc)
    except Exception as exc:
        return {"skipped": "the writer refuses the valid document: %s" % fw.exc_name(exc)}
    if fmt == "XML":
        where = case["where"]
        at_doc = where.startswith("doc")
        first, last = desc[0], desc[-1]
        kind = case["kind"]
        if kind == "dup" and where not in ("doc_end", "sec_end"):
            where = "doc_end" if at_doc else "sec_end"
        if where.startswith("nth"):
            at_doc = False
        dup_sec = first[0] if at_doc else (last[3][0][0] if last[3] else None)
        dup_prop = None if at_doc else (last[2][0][0] if last[2] else None)
        nodes = []
        for _ in range(case["copies"]):
            nodes += gen_xml_fault(kind, rng, toks, dup_sec, dup_prop, at_doc)
        must = case["must"]
        if kind == "dup":
            # a valid sibling after the refused duplicates has to survive as well
            must = must and bool(nodes)
            nodes.append(elem("section", None, [elem("name", "yy"), elem("type", "t")]))
            want = want + [("/yy" if at_doc else "/" + last[0] + "/yy")]
        fault = "\n" * case["pad"] + "".join(serialize(n) for n in nodes)
        opens = [m.end() for m in re.finditer(r"<section>", text)]
        closes = [m.start() for m in re.finditer(r"</section>", text)]
        if where == "doc_end":
            idx = text.rfind("</odML>")
        elif where == "doc_front":
            m = re.search(r"<odML[^>]*>", text)
            idx = m.end() if m else -1
        elif where == "sec_end":
            idx = text.rfind("</section>")
        elif where == "sec_front":
            idx = opens[0] if opens else -1
        elif where == "nth_end":
            idx = closes[case["nth"] % len(closes)] if closes else -1
        else:
            idx = opens[case["nth"] % len(opens)] if opens else -1
        if idx < 0:
            return {"skipped": "no insertion point"}
        text = text[:idx] + fault + text[idx:]
        obs = run_xml_x(re.sub(r"^<\?xml[^>]*\?>\s*", "", text), case["x"])
        obs["want"] = want
        obs["must"] = must
        return obs
    # dictionary formats
    import yaml
    data = json.loads(text) if fmt == "JSON" else yaml.safe_load(text)
    for _ in range(min(case["copies"], 30)):
        apply_dict_fault(data, case["kind"], rng, toks, desc[0][0])
    if case["kind"] == "dup_top":
        want = want + ["/yy"]
    sw = bool(case["sw"])
    res = {"sw": sw, "want": want, "shaped": True, "root_ok": dict_root_ok(data), "decoded": "value", "must": case["must"]}
    dumped = dump_text(data, fmt, case["deco"]) if case["via"] == "text" else None
    if dumped is not None:
        kind, back = decode_text(dumped, fmt)
        if kind != "value" or back != data:
            dumped = None                         # the text form is not this value: use the value itself
    if dumped is None:
        lenient = case["mode"] == "lenient"
        rd = DictReader(show_warnings=sw, ignore_errors=lenient)
        res.update({"via": "direct", "lenient": lenient, "exposes": True})
        return finish(res, lambda: rd.warnings, lambda: rd.to_odml(data))
    entry = case["entry"]
    # ODMLReader does not hand on the warnings of the DictReader it uses
    res.update({"via": fmt, "entry": entry, "lenient": fmt == "YAML" and entry in ("odml_file", "load"), "exposes": False})
    fn, warn = dict_text_call(dumped, fmt, entry, sw)
    return finish(res, warn, fn)


def judge_fault(case, obs):
    if case["format"] == "XML":
        x = case["x"]
        lenient = x_lenient(x)
        in_scope = obs.get("in_scope", False)
        want = obs.get("want") if x["same"] else None
        if want is not None and x["codec"] == "shift_jis" and any("\\" in p or "~" in p for p in want):
            # bytes 5C / 7E of Shift_JIS are the yen sign and the overline for libxml2 (JIS X 0201), a backslash
            # and a tilde for Python's codec: the bytes do not decode to the text that was written
            want = None
        out = judge(obs, lenient, in_scope, want)
        exposes = x["entry"] not in ("load", "load_backend", "load_pathlib", "xp_load") and x["faithful"]
    else:
        lenient = obs.get("lenient", False)
        in_scope = True
        out = judge(obs, lenient, True, obs.get("want") if lenient else None)
        exposes = obs.get("exposes", False)
    # "every problem is recorded as a warning"
    if obs.get("must") and lenient and in_scope and exposes and obs.get("root_ok") and obs.get("outcome") == "doc" \
            and not obs.get("warnings"):
        out.append("lenient reader returned a Document for an input with a problem (%s) and recorded no warning" % case["kind"])
    return out


# ============================================================================= round 4: how deep the input nests
# Dimension that was missing (design.d/C16.md, "Strengthening after seeded round 4"): the NESTING DEPTH of the
# input, measured against the resources of the interpreter. The readers recurse once per nested Section; the
# XML library refuses documents nested deeper than 256 elements, the JSON / YAML decoders have limits of their
# own - what is left between "a handful of levels" (all the streams above) and "the decoder gives up" is a band
# of well-formed inputs on which the reader's own recursion must not run into Python's recursion limit (a
# RecursionError is neither a Document nor a ParserException). Whether it does depends on how many frames the
# CALLER already has on the stack, so every reader call of this stream is made
#   * in a fresh thread: the frames below the call are Thread._bootstrap, _bootstrap_inner, run, the thread's
#     target function and the thunk - the number is measured and recorded (obs["base_frames"], 5 in CPython 3.12),
#     no frame of the framework, of multiprocessing or of this module's dispatch is below it. No real caller
#     (a script at module level has 1-2 frames) is meaningfully shallower: this is the weakest reading of
#     "any text" along this dimension;
#   * with the interpreter's default recursion limit (PY_LIMIT = 1000, set for the call if something changed it).
# Measured on the unchanged tree (tools: sys.setprofile in such a thread): XML 3 frames per nested Section + ~21
# at the innermost object: 780 frames at 253 Sections + a Property (256 nested elements, the deepest libxml2 accepts), i.e.
# a margin of ~220 frames; dictionaries 1 frame per Section + ~17: ~770 at the deepest JSON text json.loads
# decodes, YAML decoding itself needs 4 frames per level and is the bottleneck there.
# Sub-streams (all oracle-only but xml_tie): xml (chain of Sections x depth 1 ... 3000, most of them in the band
# 228 ... 261 around libxml2's limit x siblings in front of / behind the nested child at every level x what the
# innermost Section holds (nothing, a Property, 11 Properties, a fault of the round-3 grammar, duplicates) x a level
# without name / type x other chains (Property in Property, alternating, unknown elements, text elements) x a
# second chain x indentation, comments, PIs x all entry points / encodings / options of round 2), xml_tie (the
# same as abstract trees, compared with the Lean model), dict (JSON text, YAML flow and block text, the decoded
# value through DictReader strict / lenient; depth up to what the decoder decodes), seq (one reader object for
# 2-3 deep inputs, also after a refused one).
PY_LIMIT = 1000
_SHALLOW = [False]
_MEASURE = [False]          # count frames during the call (second run of a case, for the tie with Reader.readerStack)
READER_FILE = os.path.join("odml", "tools", "xmlparser.py")      # the module the property is anchored in
LIBXML_MAX_DEPTH = 256      # C16.libxmlMaxDepth: a tree lxml hands out is never deeper (checked on every deep tie case)
CALLER_INNER_MAX = 222      # hypothesis of C16.nesting_within_recursion_limit, checked on every measured case
DEEP_BAND = list(range(228, 262))
DEEP_LOW = [1, 2, 3, 10, 50, 100, 150, 199, 200, 201, 210, 220]
DEEP_BEYOND = [262, 300, 400, 1000, 3000]
# dictionaries: json.loads (CPython 3.12, called from such a thread) decodes up to ~745 nested Sections,
# yaml.safe_load up to ~240 (with the room decode_shallow keeps: 725 and 217); the bands end where the decoders end (decided per case by decode_shallow)
DEEP_JSON = [1, 10, 100, 200, 250, 300, 400, 500, 600, 800, 1000, 3000]
DEEP_YAML = [1, 10, 50, 100, 150, 180, 240, 250, 300, 1000]
DEEP_CHAINS = ["section"] * 16 + ["alt", "unknown", "property", "text"]
DEEP_LEAVES = ["prop", "prop", "none", "props", "fault", "fault", "dup", "brackets"]


def call_shallow(fn, res=None, limit=PY_LIMIT):
    """fn() in a fresh thread with the default recursion limit: the caller's stack is as shallow as a caller's
    stack can be and the same in every run (not the 30-40 frames of framework + pool + this module)."""
    import threading
    box = {}

    def target():
        frame, n = sys._getframe(), 0
        while frame is not None:
            n, frame = n + 1, frame.f_back
        box["base"] = n + 1                         # + the frame of fn itself
        if measure:
            # Python frames on the stack (all / of the XML reader's module), maxima over the call
            cur = [n, 0]
            top = [n, 0]

            def prof(frame, event, _arg):
                if event == "call":
                    cur[0] += 1
                    if cur[0] > top[0]:
                        top[0] = cur[0]
                    if frame.f_code.co_filename.endswith(READER_FILE):
                        cur[1] += 1
                        if cur[1] > top[1]:
                            top[1] = cur[1]
                elif event == "return":
                    cur[0] -= 1
                    if frame.f_code.co_filename.endswith(READER_FILE):
                        cur[1] -= 1
            sys.setprofile(prof)
        try:
            box["value"] = fn()
        except BaseException as exc:                # handed to the caller's thread
            box["exc"] = exc
        finally:
            if measure:
                sys.setprofile(None)
                box["tstack"], box["rstack"] = top
    measure = _MEASURE[0]
    old_limit = sys.getrecursionlimit()
    old_size = None
    try:
        old_size = threading.stack_size(64 * 1024 * 1024)      # C stack: never the limiting resource
    except (ValueError, RuntimeError):
        pass
    try:
        if old_limit != limit:
            sys.setrecursionlimit(limit)
        th = threading.Thread(target=target, name="c16-shallow")
        th.daemon = True
        th.start()
        th.join()                                   # interrupted by the alarm of time_limit / the framework
    finally:
        if sys.getrecursionlimit() != old_limit:
            sys.setrecursionlimit(old_limit)
        if old_size is not None:
            try:
                threading.stack_size(old_size)
            except (ValueError, RuntimeError):
                pass
    if res is not None:
        res["base_frames"] = box.get("base")
        if measure:
            res["tstack"], res["rstack"] = box.get("tstack"), box.get("rstack")
    if "exc" in box:
        raise box["exc"]
    return box.get("value")


def wf_problems_deep(doc):
    """the clauses of wf_problems (C03 / C04 for a loaded document, public API) without recursion and without
    its depth cap: the cap stands for 'this is a cycle', here the set of visited objects does that"""
    import odml
    out = []
    seen = set()

    def canonical(i):
        try:
            return isinstance(i, str) and str(uuid.UUID(i)) == i
        except Exception:
            return False

    def check_names(children, what, where):
        names = []
        for c in children:
            nm = c.name
            if nm is None or (isinstance(nm, str) and nm == "") or (not isinstance(nm, (str, int, float)) and not nm):
                out.append("%s with empty name in %s" % (what, where))
            for other in names:
                try:
                    same = (other == nm)
                except Exception:
                    same = False
                if same:
                    out.append("two %ss named %r in %s" % (what, nm, where))
            names.append(nm)
    if doc.parent is not None:
        out.append("document has a parent")
    todo = [(doc, None)]
    while todo and len(out) < 50:
        node, parent = todo.pop()
        if id(node) in seen:
            out.append("object reachable twice")
            continue
        seen.add(id(node))
        if len(seen) > 10 ** 6:
            out.append("more than 10^6 objects")
            break
        if not canonical(node.id):
            out.append("id %r is not a canonical uuid" % (node.id,))
        if parent is not None and node.parent is not parent:
            out.append("child %r does not report its container as parent" % (node.name,))
        if isinstance(node, odml.property.BaseProperty):
            continue
        check_names(node.sections, "Section", repr(getattr(node, "name", "document")))
        if hasattr(node, "properties"):
            check_names(node.properties, "Property", repr(node.name))
            todo.extend((p, node) for p in node.properties)
        todo.extend((s, node) for s in node.sections)
    return out[:5]


def doc_sig(doc):
    """what a returned document holds, flat: 'depth|name of the container|S or P|name' per object"""
    out = []
    todo = [(s, 1, "") for s in doc.sections]
    while todo and len(out) < 200000:
        sec, depth, pname = todo.pop()
        out.append("%d|%s|S|%s" % (depth, pname, sec.name))
        for p in sec.properties:
            out.append("%d|%s|P|%s" % (depth + 1, sec.name, p.name))
        for s in sec.sections:
            todo.append((s, depth + 1, sec.name))
    return out


def doc_flat(doc):
    """the returned document in document order, flat: [depth, 'S' / 'P', name (None: the object's own id)]"""
    out = []
    todo = [(s, 1) for s in reversed(list(doc.sections))]
    while todo and len(out) < 200000:
        sec, depth = todo.pop()
        nm = name_enc(sec)
        out.append([depth, "S", None if nm["is_id"] else nm["n"]])
        for p in sec.properties:
            nm = name_enc(p)
            out.append([depth + 1, "P", None if nm["is_id"] else nm["n"]])
        todo.extend((s, depth + 1) for s in reversed(list(sec.sections)))
    return out


def model_flat(obj):
    """the same form of the document the model returns (driver encoding of Obj)"""
    out = []
    todo = [(s, 1) for s in reversed(obj["secs"])]
    while todo:
        sec, depth = todo.pop()
        out.append([depth, "S", None if sec["name"] is None else sec["name"]["g"]])
        for p in sec["props"]:
            out.append([depth + 1, "P", None if p["name"] is None else p["name"]["g"]])
        todo.extend((s, depth + 1) for s in reversed(sec["secs"]))
    return out


def deep_depth(rng):
    r = rng.random()
    if r < 0.55:
        return rng.choice(DEEP_BAND)
    if r < 0.70:
        return rng.choice(DEEP_LOW)
    if r < 0.88:
        return rng.randrange(1, 262)
    return rng.choice(DEEP_BEYOND)


def gen_deep_spec(rng, tie=False):
    """the description of one deeply nested XML document (the text is built from it by build_deep_xml)"""
    chain = rng.choice(DEEP_CHAINS)
    depth = deep_depth(rng)
    if tie:
        depth = min(depth, 300)                   # the abstract tree travels as JSON
    _, toks = spice_tokens(rng, True)
    spec = {"depth": depth, "chain": chain, "leaf": rng.choice(DEEP_LEAVES), "seed": rng.randrange(0, 10 ** 9),
            "sib": rng.choice([0, 0, 1, 2, 3]), "sibrate": rng.choice([0.05, 0.3, 1.0]),
            "miss": rng.randrange(0, depth) if rng.random() < 0.12 else None,
            "misswhat": rng.choice(["name", "type", "both"]),
            "case": rng.random() < 0.15, "pretty": (not tie) and rng.random() < 0.3,
            "top": rng.choice([0, 0, 0, 1, 2]), "second": deep_depth(rng) if rng.random() < 0.12 else 0,
            "kind": rng.choice([k for k, _ in XML_FAULT_KINDS if k != "dup"]),
            "toks": toks if rng.random() < 0.5 else ["x", "text", "1"],
            "names": rng.choice(["s", "s", "s", "n", u"\xe9"]) if not tie else rng.choice(["s", "s", "n"])}
    if tie and spec["second"]:
        spec["second"] = min(spec["second"], 300)
    return spec


def build_deep_xml(spec, with_tree=False):
    """-> {"text": the document without XML declaration, "want": signature (doc_sig) of every valid object whose
    containers are all valid, "tree": abstract tree (with_tree; text == serialize(tree))}. Built level by level,
    without recursion."""
    import random
    rng = random.Random(spec["seed"])
    toks = spec["toks"]
    want = []
    pretty = bool(spec.get("pretty")) and not with_tree

    def spell(tag):
        if spec["case"] and rng.random() < 0.3:
            return rng.choice([tag.upper(), tag.capitalize()])
        return tag

    def siblings(level, cname, tagged, alive, in_section=True):
        """valid objects next to the nested child of level `level` (their container is the chain element)"""
        nodes = []
        if rng.random() >= spec["sibrate"]:
            return nodes
        for j in range(rng.randrange(0, spec["sib"] + 1)):
            nm = "%s%d_%d" % (tagged, level, j)
            if in_section and rng.random() < 0.6:
                nodes.append(elem(spell("property"), None, [elem("name", "p" + nm), elem("value", rng.choice(["1", "[1,2]", "x"]))]))
                if alive:
                    want.append("%d|%s|P|p%s" % (level + 2, cname, nm))
            else:
                nodes.append(elem(spell("section"), None, [elem("name", "q" + nm), elem("type", "t")]))
                if alive:
                    want.append("%d|%s|S|q%s" % (level + 2, cname, nm))
        return nodes

    def chain(prefix, depth, kind, leafkind, miss, start_depth, container):
        """-> per level: (tag, nodes in front of the nested child, nodes behind it), the nodes inside the innermost"""
        levels = []
        alive = True
        cname = container
        for i in range(depth):
            if kind == "section" or i == 0:
                tag = "section"
            elif kind == "alt":
                tag = "property" if i % 2 else "section"
            elif kind == "unknown":
                tag = rng.choice(["foo", "foo", "values", "x.y"])
            elif kind == "property":
                tag = "property"
            else:
                tag = rng.choice(["definition", "reference", "repository"])     # not name / type: the outermost Section stays valid
            if tag != "section" and alive:
                alive = False                               # nothing below an element that is no Section is demanded
            name = "%s%d" % (prefix, i)
            head = []
            if tag in ("section", "property"):
                skip = miss == i
                if not (skip and spec["misswhat"] in ("name", "both")):
                    head.append(elem("name", name))
                if tag == "section" and not (skip and spec["misswhat"] in ("type", "both")):
                    head.append(elem("type", "t"))
                if skip:
                    alive = False
                if rng.random() < 0.1:
                    head.append(elem("definition", fault_text(rng, toks)))
                if rng.random() < 0.3:
                    rng.shuffle(head)
            if alive:
                want.append("%d|%s|S|%s" % (start_depth + i, cname, name))
            front = siblings(start_depth + i - 1, name, prefix + "a", alive, tag == "section")
            back = siblings(start_depth + i - 1, name, prefix + "b", alive, tag == "section")
            if rng.random() < 0.15:
                front, head = head + front, []            # the nested child in front of name / type
                levels.append((spell(tag), [], front + back if rng.random() < 0.5 else back + front))
            else:
                levels.append((spell(tag), head + front, back))
            cname = name
        # inside the innermost element
        inner = []
        lvl = start_depth + depth
        if leafkind == "prop":
            inner = [elem("property", None, [elem("name", "leaf"), elem("value", "[1,2]"), elem("type", "int")])]
            if alive:
                want.append("%d|%s|P|leaf" % (lvl, cname))
        elif leafkind == "props":
            inner = [elem("property", None, [elem("name", "p%d" % j), elem("value", str(j))]) for j in range(11)]
            if alive:
                want.extend("%d|%s|P|p%d" % (lvl, cname, j) for j in range(11))
        elif leafkind == "fault":
            inner = gen_xml_fault(spec["kind"], rng, toks, None, None, False)
        elif leafkind == "brackets":
            # nesting inside a text: value lists, tuples and cardinalities bracketed n times
            n = rng.choice([10, 1000, 100000])
            o, c = rng.choice(["[]", "()", "{}"])
            inner = [elem("property", None, [elem("name", "bk"), elem("value", o * n + "1" + c * n)]),
                     elem("property", None, [elem("name", "bc"), elem("val_cardinality", "(" * n + "1,2" + ")" * n)]),
                     elem("property", None, [elem("name", "leaf"), elem("value", "1")])]
            if alive:
                want.append("%d|%s|P|leaf" % (lvl, cname))
        elif leafkind == "dup":
            inner = [elem("section", None, [elem("name", "dupS"), elem("type", "t")]),
                     elem("property", None, [elem("name", "dupP"), elem("value", "1")])]
            inner += gen_xml_fault("dup", rng, toks, "dupS", "dupP", False)
            inner.append(elem("section", None, [elem("name", "yy"), elem("type", "t")]))
            if alive:
                want.extend(["%d|%s|S|dupS" % (lvl, cname), "%d|%s|P|dupP" % (lvl, cname), "%d|%s|S|yy" % (lvl, cname)])
        return levels, inner

    def deco(level):
        if not pretty:
            return ""
        r = rng.random()
        extra = "<!-- c -->" if r < 0.03 else ("<?pi x?>" if r < 0.05 else "")
        return "\n" + " " * min(level, 300) + extra

    def chain_text(levels, inner, start_depth):
        pre, post = [], []
        for i, (tag, front, back) in enumerate(levels):
            pre.append(deco(start_depth + i) + "<" + tag + ">" + "".join(deco(start_depth + i + 1) + serialize(n) for n in front))
            post.append("".join(deco(start_depth + i + 1) + serialize(n) for n in back) + deco(start_depth + i) + "</" + tag + ">")
        body = "".join(deco(start_depth + len(levels)) + serialize(n) for n in inner)
        if not body and levels and not levels[-1][1] and not levels[-1][2]:
            # an element without any content: written the way serialize() writes it
            tag = levels[-1][0]
            pre[-1] = pre[-1][:pre[-1].rindex("<" + tag + ">")] + "<" + tag + "/>"
            post[-1] = ""
        return "".join(pre) + body + "".join(reversed(post))

    def chain_tree(levels, inner):
        node_kids = list(inner)
        node = None
        for tag, front, back in reversed(levels):
            kids = front + (node_kids if node is None else [node]) + back
            node = elem(tag, None, kids)
        return node

    top = []
    for j in range(spec["top"]):
        top.append(elem("section", None, [elem("name", "t%d" % j), elem("type", "t"),
                                          elem("property", None, [elem("name", "p"), elem("value", "x")])]))
        want.extend(["1||S|t%d" % j, "2|t%d|P|p" % j])
    levels, inner = chain(spec["names"], spec["depth"], spec["chain"], spec["leaf"], spec["miss"], 1, "")
    text = '<odML version="1.1">' + "".join(serialize(n) for n in top) + chain_text(levels, inner, 1)
    kids = top + [chain_tree(levels, inner)] if with_tree else None
    if spec["second"]:
        levels2, inner2 = chain("u", spec["second"], "section", "prop", None, 1, "")
        text += chain_text(levels2, inner2, 1)
        if with_tree:
            kids.append(chain_tree(levels2, inner2))
    tail = [elem("section", None, [elem("name", "last"), elem("type", "t")])] if rng.random() < 0.5 else []
    if tail:
        want.append("1||S|last")
    text += "".join(serialize(n) for n in tail) + (deco(0) if pretty else "") + "</odML>"
    out = {"text": text, "want": want}
    if with_tree:
        out["tree"] = elem("odML", None, kids + tail, [["version", "1.1"]])
    return out


def gen_deep_dict_spec(rng, yaml_text=False):
    r = rng.random()
    if yaml_text:
        depth = rng.randrange(185, 236) if r < 0.5 else (rng.choice(DEEP_YAML) if r < 0.8 else rng.randrange(1, 240))
    else:
        depth = rng.randrange(620, 760) if r < 0.5 else (rng.choice(DEEP_JSON) if r < 0.8 else rng.randrange(1, 760))
    return {"depth": depth,
            "seed": rng.randrange(0, 10 ** 9), "sib": rng.choice([0, 0, 1, 2]), "sibrate": rng.choice([0.05, 0.3, 1.0]),
            "props": rng.choice([0.0, 0.1, 1.0]), "order": rng.choice(["first", "last", "mixed"]),
            "leaf": rng.choice(["prop", "none", "nondict", "unknown_key", "dup", "bad_value", "nested_value"]),
            "miss": rng.random() < 0.1}


def build_deep_dict(spec):
    """-> {"json": JSON text (also YAML flow style), "yaml": YAML block style, "want": signature}; level by level"""
    import random
    rng = random.Random(spec["seed"])
    d = spec["depth"]
    want = []
    jpre, jpost, ypre, ypost = [], [], [], []
    miss = rng.randrange(0, d) if spec["miss"] else None
    alive = True
    cname = ""
    for i in range(d):
        name = "s%d" % i
        ind = "  " * (i + 1)
        pairs = [] if miss == i else [["name", name]]
        pairs.append(["type", "t"])
        if miss == i:
            alive = False
        if alive:
            want.append("%d|%s|S|%s" % (i + 1, cname, name))
        if rng.random() < spec["props"]:
            pairs.append(["properties", [{"name": "p", "value": [1, 2]}, {"name": "q", "type": "string", "value": ["x"]}]])
            if alive:
                want.extend(["%d|%s|P|p" % (i + 2, name), "%d|%s|P|q" % (i + 2, name)])
        front, back = [], []
        if rng.random() < spec["sibrate"]:
            for j in range(rng.randrange(0, spec["sib"] + 1)):
                where = front if rng.random() < 0.5 else back
                nm = "a%d_%d" % (i, j)
                where.append({"name": nm, "type": "t"})
                if alive:
                    want.append("%d|%s|S|%s" % (i + 2, name, nm))
        order = spec["order"] if spec["order"] != "mixed" else rng.choice(["first", "last"])
        # JSON: the pairs of this level, "sections" first or last
        body = ", ".join("%s: %s" % (json.dumps(k), json.dumps(v)) for k, v in pairs)
        fronts = "".join(json.dumps(x) + ", " for x in front)
        backs = "".join(", " + json.dumps(x) for x in back)
        if order == "last":
            jpre.append("{" + body + ', "sections": [' + fronts)
            jpost.append(backs + "]}")
        else:
            jpre.append('{"sections": [' + fronts)
            jpost.append(backs + "], " + body + "}")
        # YAML block style (keys in the order name, type, properties, sections)
        lines = []
        first = True
        for k, v in pairs:
            lines.append(ind + ("- " if first else "  ") + "%s: %s" % (k, json.dumps(v)))
            first = False
        lines.append(ind + "  sections:")
        for x in front:
            lines.append(ind + "  - " + json.dumps(x))
        ypre.append("\n".join(lines) + "\n")
        ypost.append("".join(ind + "  - " + json.dumps(x) + "\n" for x in back))
        cname = name
    leaf = spec["leaf"]
    inner = []
    if leaf == "prop":
        inner = [{"name": "leafsec", "type": "t", "properties": [{"name": "leaf", "value": [1, 2], "type": "int"}]}]
        if alive:
            want.extend(["%d|%s|S|leafsec" % (d + 1, cname), "%d|leafsec|P|leaf" % (d + 2)])
    elif leaf == "nondict":
        inner = [5, None, "x", {"name": "after", "type": "t"}]
        if alive:
            want.append("%d|%s|S|after" % (d + 1, cname))
    elif leaf == "unknown_key":
        inner = [{"name": "uk", "type": "t", "foo": 1, "section": []}, {"name": "after", "type": "t"}]
        if alive:
            want.append("%d|%s|S|after" % (d + 1, cname))
    elif leaf == "dup":
        inner = [{"name": "k", "type": "t"}, {"name": "k", "type": "t"}, {"name": "after", "type": "t"}]
        if alive:
            want.extend(["%d|%s|S|k" % (d + 1, cname), "%d|%s|S|after" % (d + 1, cname)])
    elif leaf == "nested_value":
        # nesting inside an attribute: a value / name / definition / cardinality that is a list in a list in a list ...
        n = rng.choice([10, 100, 400])
        key = rng.choice(["value", "value", "name", "definition", "unit", "val_cardinality", "id", "dependency"])
        nested = 1
        for _ in range(n):
            nested = [nested]
        prop = {"name": "zz", key: nested}
        inner = [{"name": "nv", "type": "t", "properties": [prop, {"name": "ok", "value": [1]}]}, {"name": "after", "type": "t"}]
        if alive:
            want.extend(["%d|%s|S|nv" % (d + 1, cname), "%d|nv|P|ok" % (d + 2), "%d|%s|S|after" % (d + 1, cname)])
    elif leaf == "bad_value":
        inner = [{"name": "bv", "type": "t", "properties": [{"name": "zz", "type": "int", "value": ["x"]}, {"name": "ok", "value": [1]}]}]
        if alive:
            want.extend(["%d|%s|S|bv" % (d + 1, cname), "%d|bv|P|ok" % (d + 2)])
    jtext = '{"odml-version": "1.1", "Document": {"author": "x", "sections": [' + "".join(jpre) + \
            ", ".join(json.dumps(x) for x in inner) + "".join(reversed(jpost)) + "]}}"
    ind = "  " * (d + 1)
    yinner = "".join(ind + "- " + json.dumps(x) + "\n" for x in inner)
    ytext = "odml-version: '1.1'\nDocument:\n  author: x\n  sections:\n" + "".join(ypre) + yinner + "".join(reversed(ypost))
    if d == 0 and not inner:
        ytext = "odml-version: '1.1'\nDocument:\n  author: x\n  sections: []\n"
    return {"json": jtext, "yaml": ytext, "want": want}


def gen_deep(rng, ascii_names=False):
    """one case of the stream deep"""
    r = rng.random()
    if r < 0.45:
        x = gen_xspec(rng, ascii_names)
        if rng.random() < 0.7:
            enc = rng.choice(ENC_UTF8)
            x.update({"codec": enc[0], "decl": enc[1], "bom": enc[2], "faithful": enc[3], "same": enc[4]})
        return {"stream": "deep", "kind": "xml", "spec": gen_deep_spec(rng), "x": x}
    if r < 0.68:
        return {"stream": "deep", "kind": "xml_tie", "spec": gen_deep_spec(rng, True), "mode": rng.choice(["strict", "lenient"]),
                "entry": rng.choice(["string", "string", "file", "bytes", "file_rb", "bytesio"])}
    if r < 0.88:
        via = rng.choice(["JSON", "JSON", "YAML_flow", "YAML_block", "direct", "direct"])
        return {"stream": "deep", "kind": "dict", "spec": gen_deep_dict_spec(rng, via.startswith("YAML")), "via": via,
                "entry": rng.choice(["odml_string", "odml_file", "load"]), "mode": rng.choice(["strict", "lenient"]),
                "sw": rng.random() < 0.4}
    steps = []
    reader = rng.choice(["xml_strict", "xml_lenient", "xml_lenient", "odml_xml", "odml_json", "dict_lenient", "dict_strict"])
    for _ in range(rng.randrange(2, 4)):
        if reader in ("xml_strict", "xml_lenient", "odml_xml"):
            spec = gen_deep_spec(rng)
            spec["names"] = "s"
        else:
            spec = gen_deep_dict_spec(rng)
        steps.append({"spec": spec, "via": rng.choice(["string", "file"])})
    return {"stream": "deep", "kind": "seq", "reader": reader, "sw": rng.random() < 0.3, "steps": steps}


def decode_shallow(text, fmt):
    """what the text decodes to when the decoder is called the way the readers call it - with some room to spare,
    so that a text is only 'decodable' when the reader's own call of the decoder (a frame or two deeper) succeeds
    as well: JSON is decoded inside 40 further brackets (the C decoder counts its own nesting), YAML with a
    recursion limit lowered by 100 frames (its composer and constructor are Python)"""
    def dec():
        if fmt == "JSON":
            return json.loads("[" * 40 + text + "]" * 40)
        import yaml
        return yaml.safe_load(text)
    try:
        with time_limit(TIME_LIMIT * 2):
            val = call_shallow(dec, None, PY_LIMIT if fmt == "JSON" else PY_LIMIT - 100)
    except _Timeout:
        return ("undecodable", "timeout")
    except Exception as exc:
        return ("undecodable", fw.exc_name(exc))
    if fmt == "JSON":
        for _ in range(40):
            val = val[0]
    return ("value", val)


def run_deep(case):
    kind = case["kind"]
    _SHALLOW[0] = True
    try:
        if kind == "xml":
            built = build_deep_xml(case["spec"])
            obs = run_xml_x(built["text"], case["x"])
            obs["want"] = built["want"]
            return obs
        if kind == "xml_tie":
            built = build_deep_xml(case["spec"], True)
            text = built["text"]
            obs = run_xml(text, case["mode"], case["entry"])
            obs["root_ok"] = xml_root_ok(text)
            obs["want"] = built["want"]
            obs["lxml_ok"] = str_root(text)[0] is not None
            if obs["lxml_ok"]:
                mt = model_tree(built["tree"])
                csvfail = []
                csv_failures(mt, csvfail)
                obs["csvfail"] = csvfail
                obs["env"] = xml_env(mt, csvfail)
                # the same call once more, counting frames (not part of the verdict of the oracle: the
                # profile function is a frame itself)
                _MEASURE[0] = True
                try:
                    second = run_xml(text, case["mode"], case["entry"])
                finally:
                    _MEASURE[0] = False
                obs["rstack"], obs["tstack"] = second.get("rstack"), second.get("tstack")
            return obs
        if kind == "dict":
            return run_deep_dict(case)
        return run_deep_seq(case)
    finally:
        _SHALLOW[0] = False


def run_deep_dict(case):
    from odml.tools.dict_parser import DictReader
    built = build_deep_dict(case["spec"])
    via = case["via"]
    sw = bool(case["sw"])
    fmt = "JSON" if via in ("JSON", "direct") else "YAML"
    text = built["yaml"] if via == "YAML_block" else built["json"]
    res = {"sw": sw, "want": built["want"], "via": via}
    kind, val = decode_shallow(text, fmt)
    res["decoded"] = kind
    if kind == "value":
        res["shaped"] = dict_shaped(val)
        res["root_ok"] = dict_root_ok(val)
    if via == "direct":
        if kind != "value":
            return {"skipped": "no decoder produces a value this deep"}
        lenient = case["mode"] == "lenient"
        rd = DictReader(show_warnings=sw, ignore_errors=lenient)
        res["lenient"] = lenient
        return finish(res, lambda: rd.warnings, lambda: rd.to_odml(val))
    entry = case["entry"]
    res["entry"] = entry
    res["lenient"] = fmt == "YAML" and entry in ("odml_file", "load")
    fn, warn = dict_text_call(text, fmt, entry, sw)
    return finish(res, warn, fn)


def run_deep_seq(case):
    from odml.tools.xmlparser import XMLReader
    from odml.tools.odmlparser import ODMLReader
    from odml.tools.dict_parser import DictReader
    reader = case["reader"]
    sw = bool(case["sw"])
    fmt = "JSON" if reader in ("odml_json", "dict_lenient", "dict_strict") else "XML"
    if reader in ("xml_strict", "xml_lenient"):
        rd = XMLReader(ignore_errors=(reader == "xml_lenient"), show_warnings=sw)
    elif reader in ("dict_strict", "dict_lenient"):
        rd = DictReader(ignore_errors=(reader == "dict_lenient"), show_warnings=sw)
    else:
        rd = ODMLReader(fmt, show_warnings=sw)
    out = []
    for i, st in enumerate(case["steps"]):
        o = {"sw": sw, "in_scope": True}
        via = st["via"]
        if fmt == "XML":
            built = build_deep_xml(st["spec"])
            text = built["text"]
            o["root_ok"] = root_is_ok(str_root(text)[0])
            o["lenient"] = (via == "file") if reader == "odml_xml" else (reader == "xml_lenient")
        else:
            built = build_deep_dict(st["spec"])
            text = built["json"]
            kind, val = decode_shallow(text, "JSON")
            o["in_scope"] = kind == "value" and dict_shaped(val)
            o["root_ok"] = kind == "value" and dict_root_ok(val)
            o["lenient"] = reader == "dict_lenient"
            if reader.startswith("dict") and kind != "value":
                o["skipped"] = "undecodable"
                out.append(o)
                continue
        o["want"] = built["want"]
        if reader.startswith("dict"):
            fn = lambda val=val: rd.to_odml(val)
        elif via == "file":
            path = tmp_path("_d%d.%s" % (i, fmt.lower()))
            with io.open(path, "w", encoding="utf-8", newline="") as fh:
                fh.write(text)
            fn = lambda path=path: rd.from_file(path)
        else:
            fn = lambda text=text: rd.from_string(text)
        finish(o, lambda: rd.warnings, fn)
        out.append(o)
    return {"steps": out}


def judge_deep(case, obs):
    kind = case["kind"]

    def with_want(o, lenient, in_scope, compare, label=""):
        out = judge(o, lenient, in_scope, None, label)
        if compare and o.get("outcome") == "doc":
            have = set(o.get("sig", []))
            missing = [p for p in o.get("want", []) if p not in have]
            if missing:
                out.append(label + "reader dropped valid parts: %d of %d, e.g. %s" % (len(missing), len(o.get("want", [])), missing[:4]))
        return out
    if kind == "xml":
        x = case["x"]
        return with_want(obs, x_lenient(x), obs.get("in_scope", False), x["same"] and obs.get("in_scope", False))
    if kind == "xml_tie":
        return with_want(obs, case["mode"] == "lenient", True, True)
    if kind == "dict":
        in_scope = obs.get("decoded") == "value" and obs.get("shaped", False)
        return with_want(obs, obs.get("lenient", False), in_scope, in_scope)
    out = []
    for i, o in enumerate(obs["steps"]):
        if "skipped" not in o:
            out += with_want(o, o["lenient"], o["in_scope"], o["in_scope"], "[step %d] " % i)
    return out


# ---- another process: locale and hash seed ---------------------------------------------------------------------------
SUB_ENVS = [{"LC_ALL": "C", "LANG": "C", "PYTHONUTF8": "0", "PYTHONCOERCECLOCALE": "0", "PYTHONHASHSEED": "0"},
            {"LC_ALL": "POSIX", "LANG": "", "PYTHONUTF8": "0", "PYTHONCOERCECLOCALE": "0", "PYTHONHASHSEED": "1"},
            {"LC_ALL": "C.utf8", "PYTHONHASHSEED": "4242", "PYTHONIOENCODING": "ascii"},
            # round 3: an interpreter that drops assert statements and docstrings
            {"PYTHONOPTIMIZE": "2", "PYTHONHASHSEED": "7"}]


def run_sub(case):
    env = dict(os.environ)
    env.update(case["env"])
    here = os.path.dirname(os.path.abspath(__file__))
    env["PYTHONPATH"] = here + os.pathsep + env.get("PYTHONPATH", "")
    env["PYTHONDONTWRITEBYTECODE"] = "1"
    proc = subprocess.run([sys.executable, os.path.abspath(__file__), "--sub"],
                          input=json.dumps(case["cases"]).encode("ascii"), env=env,
                          stdout=subprocess.PIPE, stderr=subprocess.PIPE, timeout=1200)
    if proc.returncode != 0:
        raise RuntimeError("sub process exited %s: %s" % (proc.returncode, proc.stderr.decode("ascii", "replace")[-400:]))
    return json.loads(proc.stdout.decode("ascii").strip().split("\n")[-1])


def sub_main():
    import locale
    cases = json.loads(sys.stdin.buffer.read().decode("ascii"))
    chk = C16()
    out = {"encoding": locale.getpreferredencoding(False), "sub": [chk.safe_impl(c) for c in cases]}
    sys.stdout.write(json.dumps(out, ensure_ascii=True, default=repr) + "\n")
    return 0


# ----------------------------------------------------------------------------- the check
class C16(fw.Check):
    prop = "C16"
    lean_targets = ["OdmlModel.Props.C16"]
    obligations = ["C16." + t for t in [
        "readXml_total",
        "lenient_never_raises",
        "strict_only_parser_exception",
        "readXmlText_total",
        "invalid_version_iff",
        "root_tag_in_tables",
        "rootOk_of_attrs",
        "readDict_total",
        "dict_lenient_never_raises",
        "dict_strict_only_parser_exception",
        "insert_keeps_valid_parts",
        "insert_keeps_names_unique",
        "insert_lenient_total",
        "dict_insert_keeps_valid_parts",
        "dict_insert_keeps_names_unique",
        "original_leaks_duplicate_names",
        "original_leaks_processing_instruction",
        "original_leaks_csv_error",
        "original_leaks_superscript_cardinality",
        "original_leaks_encoding_declaration",
        "original_dict_leaks_duplicate_names",
        "original_dict_leaks_document_creation",
        "original_dict_leaks_non_dict_root",
        "original_dict_leaks_wrong_shapes",
        "original_dict_drops_valid_section",
        "nesting_within_recursion_limit",
        "readerStack_le_depth",
        "chain_needs_three_per_level",
        "readXml_eq_outcome",
        "lenient_returns_valid_parts",
        "strict_returns_valid_parts_or_raises",
        "strict_result_is_lenient_result",
        "valid_input_read_in_full",
        "returned_document_wf",
        "returned_objects_le_constructor_calls",
        "readDict_eq_outcome",
        "dict_lenient_returns_valid_parts",
        "dict_strict_returns_valid_parts_or_raises",
        "dict_strict_result_is_lenient_result",
        "dict_valid_input_read_in_full",
        "dict_returned_document_wf",
    ]]
    trusted_base = [
        "Lean 4.33.0 kernel; axioms propext, Classical.choice, Quot.sound only (audited per theorem)",
        "hand-written model lean/OdmlModel/Model/Reader.lean (+ReaderXml.lean), tied to /repo by this run",
        "harness/extract_tables.py (format._args/_map tables regenerated into Lean on every run)",
        "Driver/C16.lean JSON glue; harness/framework.py, harness/c16.py",
        "text -> tree: lxml raises only XMLSyntaxError/ValueError on text; json/yaml decoding is outside "
        "the property (fuzzed with arbitrary strings, not modelled)",
    ]
    assumptions = [
        "what the odML constructors, from_csv and uuid.UUID do is a parameter of the model (Env); the "
        "harness fills it per case by calling the real constructors on the arguments the model computed",
        "a fresh uuid4 equals no other name; str.lower()/isdigit() modelled for ASCII plus the superscript "
        "digits; generated tags are ASCII",
        "names in dictionaries compare with Python ==; modelled for None/bool/int/str/list/dict "
        "(True == 1 at top level), floats by repr",
        "nesting depth (round 4): Reader.readerStack counts the frames of the XML reader's own module, 3 per nested "
        "object + 1 + 8; C16.nesting_within_recursion_limit assumes that the caller and the library code below the "
        "innermost parse_tag together need <= 222 frames (measured on every deep tie case: <= 17 from a fresh thread) "
        "and that libxml2 refuses more than 256 nested elements (observed on every run: deeper documents end in "
        "ParserException); the dictionary reader's stack need (1 frame per Section) is checked by the oracle only",
    ]
    rule = ("grammar-generated abstract XML trees and JSON-like values over the odML element names "
            "(wrong nesting, repeated/missing/unknown/case-variant elements, attributes, empty text, "
            "unparsable values/dates/ids/cardinalities, duplicate sibling names, PIs, comments, wrong "
            "container types) x strict/lenient x string/file/ODMLReader entry points x XML/JSON/YAML; "
            "arbitrary token strings and structural mutations of the repository's resource files and of "
            "generated documents; valid documents with one injected fault. Oracle-only streams: the input as "
            "bytes in 40 codec/declaration/BOM combinations (faithful, unsupported, wrong) x 15 shapes of the "
            "entry points (path, odd and relative file names, binary/text file objects, BytesIO/StringIO, "
            "bytes/str strings, ODMLReader, odml.load, xmlparser.load) x show_warnings x filename, DOCTYPE/"
            "entities/CDATA/character references/namespaces/prolog and epilog/line ends, extended pools "
            "(non-ASCII, NEL/U+2028, surrogates, multi-digit and non-ASCII digits, years < 1000, 10-tuples, "
            "depth up to 400); dictionaries with tuples/sets/dates/bytes/OrderedDict/non-string keys/shared "
            "objects/nan/huge numbers and YAML-only constructs through DictReader, ODMLReader and odml.load; "
            "one reader object for 2-4 inputs; the same cases in a process with the C locale and another "
            "hash seed. Round 3: texts, attribute values, dictionary strings and keys, names and the filename "
            "option rewritten with tokens of ten families (printf, str.format, Template, backslash, regex, quotes, "
            "Python reprs, markup, paths, separators) in a share of the trees of every tree stream; valid "
            "documents with a fault from a grammar (22 XML and 12 dictionary problem kinds x texts carried by the "
            "faulty object x location x 1-300 copies x 0-70000 lines in front) through all entry points incl. "
            "pathlib / bytes paths / bytearray / memoryview; boundary inputs (empty, root only, 10^7 characters in "
            "one text, 3000 siblings); interpreter with -OO. Round 4 (stream deep): documents nested 1 ... 3000 levels, most "
            "of them in the band just below the decoder's own limit (libxml2 256 elements, json.loads ~745 Sections, "
            "yaml.safe_load ~240), each reader call made in a fresh thread (5 frames below the call) with the default "
            "recursion limit: Section chains x siblings in front of / behind the nested child x content of the "
            "innermost Section (Property, 11 Properties, fault grammar, duplicates) x a level without name / type x "
            "chains of other elements x a second chain x indentation / comments / PIs x all XML entry points, "
            "encodings and options; the same as abstract trees compared with the model (outcome, warnings, document, "
            "frames of the reader's module <= Reader.readerStack); JSON text, YAML flow and block text and the decoded "
            "value through ODMLReader / odml.load / DictReader; one reader object for 2-3 deep inputs. "
            "A case is non-trivial when the "
            "reader got past the version check (document returned, or ParserException from inside the "
            "tree, or warnings collected); distinct = distinct canonical JSON of the case.")

    # -- generation ----------------------------------------------------------
    def generate(self, tier, rng):
        tmp_path("")            # create the run directory before the workers fork
        q = tier == "quick"
        cases = []
        n_tree = 1500 if q else 15000
        for _ in range(n_tree):
            tree = gen_xml_doc(rng)
            if rng.random() < 0.25:
                tree = spice_xml(tree, rng, True)       # round 3: texts with template / escape / quote characters
            for mode in ("strict", "lenient"):
                cases.append({"stream": "xml_tree", "tree": tree, "mode": mode,
                              "entry": rng.choice(["string", "string", "file", "bytes", "file_rb", "bytesio"])})
        n_dict = 1500 if q else 15000
        for _ in range(n_dict):
            val = gen_dict_doc(rng)
            if rng.random() < 0.25:
                val = spice_dict(val, rng, True)
            for mode in ("strict", "lenient"):
                cases.append({"stream": "dict_tree", "value": val, "mode": mode,
                              "via": rng.choice(["direct", "direct", "JSON", "YAML"])})
        # arbitrary strings and mutated files
        res = resource_texts()
        n_text = 800 if q else 10000
        for _ in range(n_text):
            r = rng.random()
            if r < 0.35 or not res["XML"]:
                text = rng.choice(['<odML version="1.1">%s</odML>', "%s", '<?xml version="1.0" encoding="UTF-8"?>\n'
                                   '<odML version="1.1">%s</odML>']) % random_text(rng)
            elif r < 0.7:
                text = mutate_text(rng.choice(res["XML"]), rng)
            else:
                tree = gen_xml_doc(rng)
                if rng.random() < 0.3:
                    tree = spice_xml(tree, rng, False)
                text = serialize(tree).replace(u"\ud800", "")       # this stream writes UTF-8 files
                if rng.random() < 0.7:
                    text = mutate_text(text, rng)
            cases.append({"stream": "xml_text", "text": text, "mode": rng.choice(["strict", "lenient"]),
                          "entry": rng.choice(["string", "file", "odml_string", "odml_file"])})
        for _ in range(n_text):
            fmt = rng.choice(["JSON", "YAML"])
            r = rng.random()
            if r < 0.3 or not res[fmt]:
                text = random_text(rng)
            elif r < 0.65:
                text = mutate_text(rng.choice(res[fmt]), rng)
            else:
                val = gen_dict_doc(rng)
                if rng.random() < 0.3:
                    val = spice_dict(val, rng, True)
                text = json.dumps(to_py(val), default=repr, indent=rng.choice([None, 1]))
                if rng.random() < 0.7:
                    text = mutate_text(text, rng)
            cases.append({"stream": "dict_text", "text": text, "format": fmt,
                          "entry": rng.choice(["odml_string", "odml_file"])})
        # valid documents with one injected fault
        n_keep = 400 if q else 5000
        for _ in range(n_keep):
            desc = gen_valid_doc(rng)
            cases.append({"stream": "keep", "desc": desc, "format": rng.choice(["XML", "XML", "JSON", "YAML"]),
                          "fault": rng.randrange(0, 1000), "where": rng.randrange(0, 1000)})
        cases += self.generate_round2(q, rng, res)
        # the expensive cases (sub: a fresh interpreter each; deep) spread evenly over the list: the pool hands out
        # chunks in list order, a chunk made of them alone would be the tail of the run
        slow = [c for c in cases if c["stream"] in ("sub", "deep")]
        rest = [c for c in cases if c["stream"] not in ("sub", "deep")]
        slow.sort(key=lambda c: c["stream"] != "sub")
        out = []
        stride = max(1, len(rest) // max(1, len(slow)))
        for i, c in enumerate(slow):
            out.append(c)
            out.extend(rest[i * stride:(i + 1) * stride])
        out.extend(rest[len(slow) * stride:])
        return out

    def generate_round2(self, q, rng, res):
        """oracle-only streams (see the comment above XML_ENTRIES)"""
        cases = []
        for _ in range(1500 if q else 15000):
            cases.append({"stream": "xml_file", "text": gen_xml_body(rng, res), "x": gen_xspec(rng)})
        for _ in range(400 if q else 4000):
            cases.append(self.gen_keepx(rng, False))
        for _ in range(1200 if q else 12000):
            cases.append(gen_dict_py(rng))
        for _ in range(300 if q else 3000):
            cases.append(gen_reuse(rng, res))
        for _ in range(1200 if q else 12000):
            cases.append(gen_fault(rng))                 # round 3
        for _ in range(450 if q else 4500):
            cases.append(gen_deep(rng))                  # round 4
        for env in SUB_ENVS:
            sub = []
            for _ in range(40 if q else 300):
                r = rng.random()
                if r < 0.08:
                    c = gen_deep(rng, True)              # round 4
                    if c["kind"] == "dict":
                        c["entry"] = "odml_string"
                    sub.append(c)
                elif r < 0.2:
                    c = gen_fault(rng, True)
                    if c["format"] != "XML":
                        c["entry"] = "odml_string"
                    sub.append(c)
                elif r < 0.45:
                    sub.append({"stream": "xml_file", "text": gen_xml_body(rng, res), "x": gen_xspec(rng, True)})
                elif r < 0.75:
                    sub.append(self.gen_keepx(rng, True))
                else:
                    c = gen_dict_py(rng)
                    c["entry"] = "odml_string"      # how a JSON / YAML file is decoded is outside the property
                    sub.append(c)
            cases.append({"stream": "sub", "env": env, "cases": sub})
        return cases

    @staticmethod
    def gen_keepx(rng, ascii_names):
        desc = gen_valid_doc_x(rng) if rng.random() < 0.7 else gen_valid_doc(rng)
        return {"stream": "keepx", "desc": desc, "format": "XML", "fault": rng.randrange(0, 1000),
                "where": rng.randrange(0, 1000), "nofault": rng.random() < 0.4, "x": gen_xspec(rng, ascii_names)}

    # -- implementation ------------------------------------------------------
    def impl(self, case):
        st = case["stream"]
        if st == "xml_tree":
            text = serialize(case["tree"])
            obs = run_xml(text, case["mode"], case["entry"])
            obs["root_ok"] = xml_root_ok(text)
            mt = model_tree(case["tree"])
            csvfail = []
            csv_failures(mt, csvfail)
            obs["csvfail"] = csvfail
            obs["env"] = xml_env(mt, csvfail)
            return obs
        if st == "xml_text":
            obs = run_xml(case["text"], case["mode"], case["entry"])
            obs["root_ok"] = xml_root_ok(case["text"])
            return obs
        if st == "dict_tree":
            val = to_py(case["value"])
            via = case["via"]
            if via != "direct" and not (json_like(val) and isinstance(val, (dict, list))):
                via = "direct"
            if via == "direct":
                obs = run_dict(val, case["mode"])
            else:
                import yaml
                text = json.dumps(val) if via == "JSON" else yaml.safe_dump(val, sort_keys=False)
                # ODMLReader: from_string is strict for both; from_file is lenient for YAML, strict for JSON
                entry = "odml_string" if case["mode"] == "strict" else "odml_file"
                if via == "JSON" and case["mode"] == "lenient":
                    obs = run_dict(val, "lenient")
                    via = "direct"
                else:
                    obs = run_dict_text(text, via, entry)
            obs["via"] = via
            obs["root_ok"] = dict_root_ok(val)
            obs["shaped"] = dict_shaped(val)
            obs["env"] = dict_env(case["value"])
            return obs
        if st == "dict_text":
            obs = run_dict_text(case["text"], case["format"], case["entry"])
            kind, val = decode_text(case["text"], case["format"])
            obs["decoded"] = kind
            if kind == "value":
                obs["shaped"] = dict_shaped(val)
                obs["root_ok"] = dict_root_ok(val)
                # from_file is lenient for YAML only
                obs["lenient"] = case["format"] == "YAML" and case["entry"] == "odml_file"
            else:
                obs["undecodable"] = val
            return obs
        if st in ("keep", "keepx"):
            return self.impl_keep(case)
        if st == "xml_file":
            return run_xml_x(case["text"], case["x"])
        if st == "dict_py":
            return run_dict_py(case)
        if st == "reuse":
            return run_reuse(case)
        if st == "fault":
            return run_fault(case)
        if st == "deep":
            return run_deep(case)
        if st == "sub":
            obs = run_sub(case)
            for o in obs["sub"]:
                if "harness_exception" in o:
                    raise RuntimeError("executor failed in the sub process: %s %s" % (o["harness_exception"], o.get("trace", "")[-600:]))
            return obs
        raise ValueError(st)

    def impl_keep(self, case):
        from odml.tools.odmlparser import ODMLWriter
        doc = build_doc(case["desc"])
        fmt = case["format"]
        text = ODMLWriter(fmt).to_string(doc)
        want = desc_paths(case["desc"])
        first = case["desc"][0]
        last = case["desc"][-1]
        if fmt == "XML":
            if case["where"] % 2 == 0:
                # last child of the document; a duplicate of a top-level name comes after the original
                fault = DOC_FAULTS[case["fault"] % len(DOC_FAULTS)] % {"sdup": first[0]}
                idx = text.rfind("</odML>")
            else:
                # last child of the last top-level section
                fault = SEC_FAULTS[case["fault"] % len(SEC_FAULTS)] % {
                    "sdup": last[3][0][0] if last[3] else "zz", "pdup": last[2][0][0] if last[2] else "zz"}
                idx = text.rfind("</section>")
            if "dup" not in (DOC_FAULTS + SEC_FAULTS)[0] and case["fault"] % 2 == 1 and \
                    "%(" not in (DOC_FAULTS if case["where"] % 2 == 0 else SEC_FAULTS)[
                        case["fault"] % len(DOC_FAULTS if case["where"] % 2 == 0 else SEC_FAULTS)]:
                # faults that are no duplicates also go in front of all valid siblings
                m = re.search(r"<odML[^>]*>" if case["where"] % 2 == 0 else r"<section>", text)
                if m:
                    idx = m.end()
            if idx < 0:
                return {"skipped": "no insertion point"}
            if "dup" in (DOC_FAULTS if case["where"] % 2 == 0 else SEC_FAULTS)[
                    case["fault"] % len(DOC_FAULTS if case["where"] % 2 == 0 else SEC_FAULTS)]:
                # a valid sibling after the refused duplicate has to survive as well
                fault += "<section><name>yy</name><type>t</type></section>"
                want = want + [("/yy" if case["where"] % 2 == 0 else "/" + last[0] + "/yy")]
            if case.get("nofault"):
                want = desc_paths(case["desc"])
            else:
                text = text[:idx] + fault + text[idx:]
            if "x" in case:
                # round 2: the same document as bytes in some encoding through some entry point
                obs = run_xml_x(re.sub(r"^<\?xml[^>]*\?>\s*", "", text), case["x"])
            else:
                obs = run_xml(text, "lenient", "string" if case["where"] % 3 else "odml_file")
                obs["root_ok"] = xml_root_ok(text)
        else:
            import yaml
            data = json.loads(text) if fmt == "JSON" else yaml.safe_load(text)
            secs = data["Document"]["sections"]
            which = case["fault"] % 7
            if which == 0:
                secs.append({"name": first[0], "type": "t"})                      # duplicate top-level name
            elif which == 1:
                secs[0].setdefault("sections", []).extend([{"name": "k", "type": "t"}, {"name": "k", "type": "t"}])
            elif which == 2:
                secs[0].setdefault("properties", []).insert(0, {"name": "zz", "type": "int", "value": ["x"]})
            elif which == 3:
                secs[0]["foo"] = 1
            elif which == 4:
                data["Document"]["date"] = "nonsense"
            elif which == 5:
                secs.insert(0, 5)
                secs.insert(1, {"name": "zz", "type": "t", "section": []})     # creation fails
            else:
                secs[0].setdefault("properties", []).extend([{"name": "zz"}, {"name": "zz"}, None])
                secs[0]["properties"].insert(0, [1])
            obs = run_dict(data, "lenient")
            obs["root_ok"] = dict_root_ok(data)
        obs["want"] = want
        return obs

    # -- model ---------------------------------------------------------------
    def model_requests(self, case, obs):
        st = case["stream"]
        if st == "xml_tree" and obs.get("env") is not None:
            return [{"op": "xml_read", "tree": model_tree(case["tree"]), "mode": case["mode"],
                     "guards": "fixed", "csvfail": obs["csvfail"], "env": obs["env"]}]
        if st == "dict_tree" and obs.get("env") is not None:
            mode = case["mode"]
            return [{"op": "dict_read", "value": case["value"], "mode": mode, "guards": "fixed",
                     "env": obs["env"]}]
        if st == "deep" and case["kind"] == "xml_tie" and obs.get("lxml_ok") and obs.get("env") is not None:
            # round 4: the abstract tree is rebuilt from the description (what libxml2 refuses is no tree)
            tree = build_deep_xml(case["spec"], True)["tree"]
            return [{"op": "xml_read", "tree": model_tree(tree), "mode": case["mode"],
                     "guards": "fixed", "csvfail": obs["csvfail"], "env": obs["env"]},
                    {"op": "xml_stack", "tree": model_tree(tree)}]
        return []

    @staticmethod
    def snap_matches(model_obj, impl_snap):
        """model Obj (driver encoding) against the snapshot of the returned document"""
        def name_ok(mn, iname):
            if mn is None:
                return iname["is_id"]
            return mn["g"] == iname["n"]

        def sec_ok(mo, isec):
            if not name_ok(mo["name"], isec["name"]):
                return False
            if len(mo["props"]) != len(isec["props"]) or len(mo["secs"]) != len(isec["secs"]):
                return False
            for mp, ip in zip(mo["props"], isec["props"]):
                if not name_ok(mp["name"], ip):
                    return False
            return all(sec_ok(a, b) for a, b in zip(mo["secs"], isec["secs"]))
        if len(model_obj["secs"]) != len(impl_snap["secs"]):
            return False
        return all(sec_ok(a, b) for a, b in zip(model_obj["secs"], impl_snap["secs"]))

    def compare(self, case, obs, answers):
        if not answers:
            return []
        a = answers[0]
        out = []
        if len(answers) > 1 and obs.get("rstack") is not None:
            # round 4: Reader.readerStack is an upper bound of the frames the reader's module stacks up, and
            # the hypothesis of C16.nesting_within_recursion_limit (caller + code below the reader) holds
            st = answers[1]
            if obs["rstack"] > st["stack"]:
                out.append("the XML reader's module had %d frames on the stack, the model allows %d (element depth %d)"
                           % (obs["rstack"], st["stack"], st["depth"]))
            if st["depth"] > LIBXML_MAX_DEPTH:
                out.append("lxml accepted a document with %d nested elements (theorem assumes <= %d)" % (st["depth"], LIBXML_MAX_DEPTH))
            if obs["tstack"] - obs["rstack"] > CALLER_INNER_MAX:
                out.append("%d frames outside the XML reader's module at the deepest point (theorem assumes <= %d)"
                           % (obs["tstack"] - obs["rstack"], CALLER_INNER_MAX))
        want = a["outcome"]
        if want == "leak":
            want = "leak of " + a.get("class", "?")
        if want != obs.get("outcome"):
            return out + ["model outcome %s, implementation outcome %s" % (want, obs.get("outcome"))]
        if want == "doc":
            if obs.get("via", "direct") == "direct" and a["warnings"] != obs.get("warnings"):
                out.append("model collects %d warnings, implementation %s" % (a["warnings"], obs.get("warnings")))
            if "doc" in obs and not self.snap_matches(a["doc"], obs["doc"]):
                out.append("model document %s, implementation document %s"
                           % (json.dumps(a["doc"])[:600], json.dumps(obs["doc"])[:600]))
            if "flat" in obs:
                mf = model_flat(a["doc"])
                if mf != obs["flat"]:
                    k = 0
                    while k < min(len(mf), len(obs["flat"])) and mf[k] == obs["flat"][k]:
                        k += 1
                    out.append("model document and implementation document differ at object %d: model %s, implementation %s"
                               % (k, mf[k:k + 3], obs["flat"][k:k + 3]))
        return out

    # -- oracle (property over the public API, independent of the model) ------
    def oracle(self, case, obs):
        if "harness_exception" in obs or "skipped" in obs:
            return []
        st = case["stream"]
        out = []
        if st in ("xml_file", "keepx"):
            x = case["x"]
            # the content is compared only when the bytes decode to the text that was written
            want = obs.get("want") if st == "keepx" and x["same"] else None
            return judge(obs, x_lenient(x), obs.get("in_scope", False), want)
        if st == "dict_py":
            return judge(obs, obs.get("lenient", False), obs.get("decoded") == "value" and obs.get("shaped", False))
        if st == "fault":
            return judge_fault(case, obs)
        if st == "deep":
            return judge_deep(case, obs)
        if st == "reuse":
            for i, o in enumerate(obs["steps"]):
                if "skipped" not in o:
                    out += judge(o, o["lenient"], o["in_scope"], o.get("want"), "[step %d] " % i)
            return out + list(obs["after"])
        if st == "sub":
            for i, (c, o) in enumerate(zip(case["cases"], obs["sub"])):
                if o.get("timeout"):
                    out.append("[sub %d] the implementation did not terminate on this case" % i)
                else:
                    out += ["[sub %d] %s" % (i, f) for f in self.oracle(c, o)]
            return out
        outcome = obs.get("outcome")
        if outcome == "timeout":
            return ["reader did not return within %d s" % TIME_LIMIT]
        in_scope = True
        lenient = case.get("mode") == "lenient"
        if st == "xml_text" and case["entry"] in ("odml_string", "odml_file"):
            lenient = case["entry"] == "odml_file"
        if st == "keep":
            lenient = True
        if st == "dict_tree":
            in_scope = obs.get("shaped", False)
        if st == "dict_text":
            in_scope = obs.get("decoded") == "value" and obs.get("shaped", False)
            lenient = obs.get("lenient", False)
        if in_scope and outcome not in ALLOWED:
            out.append("reader ended with %s (neither a Document nor a ParserException)" % outcome)
        if in_scope and lenient and obs.get("root_ok") and outcome != "doc":
            out.append("lenient reader raised %s on well-formed input with a current odML root" % outcome)
        if outcome == "doc":
            for p in obs.get("wf", []):
                out.append("returned document is not well-formed: %s" % p)
        if st == "keep" and outcome == "doc":
            have = set(obs.get("paths", []))
            missing = [p for p in obs["want"] if p not in have]
            if missing:
                out.append("lenient reader dropped valid parts: %s" % missing[:4])
        return out

    def finding_key(self, case, obs, failure):
        st = case["stream"]
        if st == "sub":
            m = re.match(r"\[sub (\d+)\] (.*)", failure, re.S)
            if not m:
                return None
            i = int(m.group(1))
            return self.finding_key(case["cases"][i], obs["sub"][i], m.group(2))
        if st == "reuse":
            m = re.match(r"\[step (\d+)\] (.*)", failure, re.S)
            if not m:
                return None
            return classify(obs["steps"][int(m.group(1))], m.group(2))
        if st in ("xml_file", "keepx", "dict_py", "fault"):
            return classify(obs, failure)
        if st == "deep":
            if case["kind"] == "seq":
                m = re.match(r"\[step (\d+)\] (.*)", failure, re.S)
                return classify(obs["steps"][int(m.group(1))], m.group(2)) if m else None
            return classify(obs, failure)
        return None

    def tag(self, case, obs):
        st = case["stream"]
        if st in ("reuse", "sub") or (st == "deep" and case["kind"] == "seq"):
            return ("%s:%s" % (st, case.get("reader", "")), True)
        outcome = obs.get("outcome", "?")
        if outcome not in ALLOWED:
            outcome = "other"
        nontrivial = (outcome == "doc") or bool(obs.get("warnings")) or \
                     (outcome == "ParserException" and bool(obs.get("root_ok")))
        mode = case.get("mode", "")
        if st in ("xml_file", "keepx"):
            mode = "%s/%s" % (case["x"]["entry"], case["x"]["codec"])
        if st == "dict_py":
            mode = obs.get("via", "")
        if st == "fault":
            mode = "%s/%s" % (case["format"], case["kind"])
        if st == "deep":
            d = case["spec"]["depth"]
            mode = "%s/%s" % (case["kind"], "1-199" if d < 200 else ("200-227" if d < 228 else ("228-261" if d < 262 else "262-")))
        return ("%s:%s:%s" % (st, mode, outcome), nontrivial)


def classify(o, failure):
    """an oracle failure of one reader call -> key of a known finding, narrowly: the entry point, the
    exception class and the input shape of the finding all have to be there"""
    outcome = o.get("outcome")
    if not isinstance(outcome, str):
        return None
    if ("ended with %s " % outcome) not in failure and ("raised %s " % outcome) not in failure:
        return None
    # The four round-2 findings (xml-from-file-lxml-oserror, xml-from-file-text-stream-declaration,
    # odmlreader-validation-report-nonstring-name / -dependency) are fixed (known_findings.d/C16.json): no open
    # finding is left to classify into, a regression of any of them is a violation again.
    return None


if __name__ == "__main__":
    if sys.argv[1:2] == ["--sub"]:
        sys.exit(sub_main())
    sys.exit(fw.main(C16(), sys.argv[1:]))
