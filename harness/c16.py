# -*- coding: utf-8 -*-
"""
C16 - Readers are total: a document, or a ParserException - never anything else.

Tie between lean/OdmlModel/Model/Reader.lean (control flow of XMLReader / DictReader over abstract
input trees) and /repo, plus the implementation-level oracle of the property:

  * outcome of every reader call is a Document or ParserException (InvalidVersionException);
  * lenient mode + well-formed input with a current-version odML root  =>  a Document;
  * lenient mode keeps all valid parts (fault-injection stream: everything of the valid original
    is still there);
  * every returned Document is a well-formed tree with unique, non-empty sibling names and
    canonical ids (C03/C04 for loaded documents);
  * every call ends within a hard time limit.

Streams: xml_tree / dict_tree (grammar-generated abstract trees, compared with the model),
xml_text / dict_text (arbitrary strings and structural mutations of valid files, oracle only),
keep (valid generated documents with injected faults).
"""
import contextlib
import io
import json
import os
import re
import select
import signal
import subprocess
import sys
import tempfile
import uuid

import framework as fw

TIME_LIMIT = 20          # seconds per reader call
ALLOWED = ("doc", "ParserException", "InvalidVersionException")

DOC_TAGS = ["id", "version", "author", "date", "section", "repository"]
SEC_TAGS = ["id", "type", "name", "definition", "reference", "link", "repository", "section",
            "include", "property", "sec_cardinality", "prop_cardinality"]
PROP_TAGS = ["id", "name", "value", "unit", "definition", "dependency", "dependencyvalue",
             "uncertainty", "reference", "type", "value_origin", "val_cardinality"]
WRONG_TAGS = ["foo", "odML", "odml", "values", "sections", "properties", "oid", "dtype", "Name",
              "SECTION", "Property", "{u}section", "valu", "name2", "_"]
NAMES = ["a", "b", "ab", "A", "c", " a ", "", "a b", u"é", "1"]
UUIDS = ["3a1f0c1e-8d5b-4c8e-9f59-1b2a3c4d5e6f", "3A1F0C1E-8D5B-4C8E-9F59-1B2A3C4D5E6F",
         "{3a1f0c1e-8d5b-4c8e-9f59-1b2a3c4d5e6f}", "3a1f0c1e8d5b4c8e9f591b2a3c4d5e6f",
         "79b613eb-a256-46bf-84f6-207df465b8f7", "bad-id", "", "1"]
DATES = ["2020-01-02", "foo", "", "2020-13-45", "2020-1-2", "02.01.2020", "2020-01-02 10:00:00"]
DTYPES = ["int", "string", "float", "boolean", "date", "datetime", "time", "text", "2-tuple",
          "nonsense", "Int", "person", "url", "", "3-tuple"]
VALUES = ["1", "[1,2]", "x", "[a,b]", "", "[", "[]", "[a\rb,c]", "(1;2)", "[(1;2),(3;4)]", '"',
          '["a,b",c]', "2020-01-01", "True", "[1,x]", " [1, 2] ", "[\n]", "1.5", "[a\r]", "\r",
          '[a"b,c]', "[,]", "[1;2]", u"[é,ü]", "a,b", "[ ]"]
CARDS = ["(1, 2)", "(2,1)", "(None,3)", "x", u"(²,3)", "", "(0,0)", "(-1,2)", "(2, 2)", "(3, None)",
         u"(1,³)", "(1,2,3)", "()", u"(¹, None)", " (1, 2) ", "[1, 2]"]
MISC = ["x", "", " ", "some text", "http://example.invalid/t.xml", "/a/b", "0.5", u"é ", "a&b<c>"]


def texts_for(tag, rng):
    t = tag.lower()
    if t == "id":
        return rng.choice(UUIDS)
    if t == "date":
        return rng.choice(DATES)
    if t == "name":
        return rng.choice(NAMES)
    if t == "value":
        return rng.choice(VALUES)
    if t.endswith("_cardinality"):
        return rng.choice(CARDS)
    if t == "type":
        return rng.choice(DTYPES + ["t", "t"])
    if t == "uncertainty":
        return rng.choice(["0.5", "x", "", "1"])
    return rng.choice(MISC)


# ----------------------------------------------------------------------------- abstract XML
def elem(tag, text=None, kids=None, attrs=None):
    return {"t": tag, "a": attrs or [], "x": text, "k": kids or []}


def case_variant(tag, rng):
    r = rng.random()
    if r < 0.85:
        return tag
    if r < 0.92:
        return tag.upper()
    return tag.capitalize()


def gen_attrs(rng):
    if rng.random() < 0.9:
        return []
    return [rng.choice([["foo", "x"], ["version", "1.1"], ["Version", "2"], ["id", "q"]])]


def gen_leaf(tag, rng):
    txt = texts_for(tag, rng)
    if rng.random() < 0.05:
        txt = None
    kids = []
    if rng.random() < 0.04:
        kids = [elem("foo", "y")]
    return elem(case_variant(tag, rng), txt, kids, gen_attrs(rng))


def gen_other(rng):
    return {"o": rng.choice(["pi", "comment", "pi"])}


def gen_prop(rng, depth):
    kids = []
    if rng.random() < 0.9:
        kids.append(gen_leaf("name", rng))
    for _ in range(rng.randrange(0, 4)):
        r = rng.random()
        if r < 0.8:
            kids.append(gen_leaf(rng.choice(PROP_TAGS), rng))
        elif r < 0.88:
            kids.append(gen_leaf(rng.choice(WRONG_TAGS), rng))
        elif r < 0.93:
            kids.append(gen_other(rng))
        elif r < 0.97:
            kids.append(gen_sec(rng, depth + 1))
        else:
            kids.append(gen_prop(rng, depth + 1))
    rng.shuffle(kids)
    return elem(case_variant("property", rng), None, kids, gen_attrs(rng))


def gen_sec(rng, depth):
    kids = []
    if rng.random() < 0.9:
        kids.append(gen_leaf("name", rng))
    if rng.random() < 0.85:
        kids.append(gen_leaf("type", rng))
    n = rng.randrange(0, 5 if depth < 3 else 2)
    for _ in range(n):
        r = rng.random()
        if r < 0.3 and depth < 4:
            kids.append(gen_sec(rng, depth + 1))
        elif r < 0.6:
            kids.append(gen_prop(rng, depth + 1))
        elif r < 0.85:
            kids.append(gen_leaf(rng.choice(SEC_TAGS[:7] + SEC_TAGS[8:9] + SEC_TAGS[10:]), rng))
        elif r < 0.92:
            kids.append(gen_leaf(rng.choice(WRONG_TAGS + PROP_TAGS), rng))
        else:
            kids.append(gen_other(rng))
    if rng.random() < 0.5:
        rng.shuffle(kids)
    return elem(case_variant("section", rng), rng.choice([None, None, "\n  ", "txt"]), kids, gen_attrs(rng))


def gen_xml_doc(rng):
    kids = []
    for _ in range(rng.randrange(0, 6)):
        r = rng.random()
        if r < 0.55:
            kids.append(gen_sec(rng, 1))
        elif r < 0.8:
            kids.append(gen_leaf(rng.choice(DOC_TAGS[:4] + DOC_TAGS[5:]), rng))
        elif r < 0.88:
            kids.append(gen_leaf(rng.choice(WRONG_TAGS + ["name", "type", "value"]), rng))
        elif r < 0.93:
            kids.append(gen_prop(rng, 1))
        else:
            kids.append(gen_other(rng))
    r = rng.random()
    attrs = [["version", "1.1"]]
    tag = "odML"
    if r < 0.04:
        attrs = []
    elif r < 0.08:
        attrs = [["version", rng.choice(["1", "1.0", "1.10", "2", " 1.1", "1.1 ", ""])]]
    elif r < 0.11:
        attrs = [["Version", "1.1"]]
    elif r < 0.15:
        attrs = [["version", "1.1"], ["foo", "x"]]
    elif r < 0.19:
        tag = rng.choice(["odml", "ODML", "section", "x", "{u}odML"])
    return elem(tag, None, kids, attrs)


XML_ESC = {"&": "&amp;", "<": "&lt;", ">": "&gt;", "\r": "&#13;", '"': "&quot;"}


def esc(s):
    return "".join(XML_ESC.get(c, c) for c in s)


def ser_tag(tag):
    """'{u}name' is written as a prefixed name of namespace u."""
    if tag.startswith("{"):
        ns, local = tag[1:].split("}")
        return "n:" + local, ' xmlns:n="%s"' % ns
    return tag, ""


def serialize(node):
    if "o" in node:
        return {"pi": "<?target data?>", "comment": "<!-- note -->", "entity": ""}[node["o"]]
    tag, nsdecl = ser_tag(node["t"])
    out = "<" + tag + nsdecl + "".join(' %s="%s"' % (k, esc(v)) for k, v in node["a"])
    inner = (esc(node["x"]) if node["x"] is not None else "") + "".join(serialize(k) for k in node["k"])
    if not inner and node["x"] is None:
        return out + "/>"
    return out + ">" + inner + "</" + tag + ">"


def model_tree(node):
    """The tree lxml hands to the reader: comments are removed by the reader's parser; an element
    without text and children has text None; text directly followed by a removed comment is kept."""
    if "o" in node:
        return node
    kids = [model_tree(k) for k in node["k"] if k.get("o") != "comment"]
    txt = node["x"]
    if txt == "":
        txt = None
    return {"t": node["t"], "a": node["a"], "x": txt, "k": kids}


# ----------------------------------------------------------------------------- abstract dict values
def jobj(pairs):
    seen = set()
    out = []
    for k, v in pairs:
        if k not in seen:
            seen.add(k)
            out.append([k, v])
    return {"o": out}


SCALARS = [None, True, False, 0, 1, 5, -1, "x", "", "None", {"f": "0.5"}, {"f": "0.0"}, [], [1], {"o": []},
           {"o": [["k", 1]]}, "2020-01-02", [1, 2], [None, 3], ["None", 2], [2, 1], [True, 2], [[1], 2],
           [{"f": "1.5"}, 2], "ab"]
DNAMES = ["a", "b", "ab", "A", "", None, 1, 2, 0, [1], [], "a", "b", True]


def d_value_for(key, rng):
    k = key.lower()
    if k in ("id", "oid"):
        return rng.choice(UUIDS + [5, None])
    if k == "date":
        return rng.choice(DATES + [None, 3])
    if k == "name":
        return rng.choice(DNAMES)
    if k in ("value", "values"):
        return rng.choice([1, [1, 2], "x", ["a", "b"], [], None, [[1, 2], [3]], {"o": [["a", 1]]}, [None],
                           {"f": "1.5"}, [1, "x"], "(1;2)", True, [True, False], ""])
    if k.endswith("_cardinality"):
        return rng.choice([[1, 2], [2, 1], [None, 3], "ab", 5, [1, "x"], [[1], 2], [{"f": "1.5"}, 2],
                           [True, 2], {"o": [["a", 1]]}, None, [2, 2], [0, 0], [-1, 2], ["None", 2],
                           [1, 2, 3], []])
    if k in ("type", "dtype"):
        return rng.choice(DTYPES + ["t", 5, None])
    if k == "uncertainty":
        return rng.choice([{"f": "0.5"}, "x", None, 0, 1])
    return rng.choice(SCALARS)


PROP_KEYS = PROP_TAGS + ["values", "dtype", "oid", "dependency_value"]
SEC_KEYS = [k for k in SEC_TAGS if k not in ("section", "property")] + ["oid"]
DOC_KEYS = [k for k in DOC_TAGS if k != "section"] + ["oid"]
WRONG_KEYS = ["foo", "section", "property", "Sections", "NAME", "", "valu", "parent"]


def gen_dprop(rng):
    if rng.random() < 0.06:
        return rng.choice(SCALARS)
    pairs = []
    if rng.random() < 0.9:
        pairs.append(["name", d_value_for("name", rng)])
    for _ in range(rng.randrange(0, 4)):
        key = rng.choice(PROP_KEYS) if rng.random() < 0.88 else rng.choice(WRONG_KEYS + ["sections"])
        pairs.append([key, d_value_for(key, rng)])
    rng.shuffle(pairs)
    return jobj(pairs)


def gen_dsec(rng, depth):
    if rng.random() < 0.06:
        return rng.choice(SCALARS)
    pairs = []
    if rng.random() < 0.9:
        pairs.append(["name", d_value_for("name", rng)])
    if rng.random() < 0.8:
        pairs.append(["type", rng.choice(["t", "t", "n.s.", "", None, 3])])
    for _ in range(rng.randrange(0, 3)):
        key = rng.choice(SEC_KEYS) if rng.random() < 0.85 else rng.choice(WRONG_KEYS + ["value"])
        pairs.append([key, d_value_for(key, rng)])
    if rng.random() < 0.6:
        if rng.random() < 0.08:
            pairs.append(["properties", rng.choice(SCALARS)])
        else:
            pairs.append(["properties", [gen_dprop(rng) for _ in range(rng.randrange(0, 4))]])
    if depth < 4 and rng.random() < 0.5:
        if rng.random() < 0.08:
            pairs.append(["sections", rng.choice(SCALARS)])
        else:
            pairs.append(["sections", [gen_dsec(rng, depth + 1) for _ in range(rng.randrange(0, 4))]])
    if rng.random() < 0.5:
        rng.shuffle(pairs)
    return jobj(pairs)


def gen_dict_doc(rng):
    r = rng.random()
    if r < 0.05:
        return rng.choice(SCALARS + ["Document odml-version", ["Document", "odml-version"]])
    pairs = []
    for _ in range(rng.randrange(0, 3)):
        key = rng.choice(DOC_KEYS) if rng.random() < 0.8 else rng.choice(WRONG_KEYS + ["properties", "name"])
        pairs.append([key, d_value_for(key, rng)])
    if rng.random() < 0.9:
        if rng.random() < 0.06:
            pairs.append(["sections", rng.choice(SCALARS)])
        else:
            pairs.append(["sections", [gen_dsec(rng, 1) for _ in range(rng.randrange(0, 5))]])
    rng.shuffle(pairs)
    doc = jobj(pairs)
    r = rng.random()
    if r < 0.05:
        doc = rng.choice(SCALARS)
    top = [["Document", doc], ["odml-version", "1.1"]]
    r = rng.random()
    if r < 0.04:
        top = [["Document", doc]]
    elif r < 0.08:
        top = [["odml-version", "1.1"]]
    elif r < 0.14:
        top = [["Document", doc], ["odml-version", rng.choice(["1", "1.0", {"f": "1.1"}, 1, None, "1.1 ", [1]])]]
    elif r < 0.17:
        top.append(["extra", 1])
    if rng.random() < 0.5:
        top.reverse()
    return jobj(top)


def to_py(j):
    """harness/driver encoding of a JSON-like value -> Python value"""
    if isinstance(j, list):
        return [to_py(x) for x in j]
    if isinstance(j, dict):
        if "f" in j:
            return float(j["f"])
        return dict((k, to_py(v)) for k, v in j["o"])
    return j


def to_jenc(v):
    """Python value -> harness/driver encoding (None if it has no encoding)"""
    if v is None or isinstance(v, (bool, str)):
        return v
    if isinstance(v, int):
        return v
    if isinstance(v, float):
        return {"f": repr(v)}
    if isinstance(v, (list, tuple)):
        return [to_jenc(x) for x in v]
    if isinstance(v, dict):
        return {"o": [[k if isinstance(k, str) else repr(k), to_jenc(x)] for k, x in v.items()]}
    return {"other": repr(v)}


def json_like(v):
    """does json.dumps/loads reproduce the value (no float specials, string keys)?"""
    try:
        return json.loads(json.dumps(v)) == v
    except Exception:
        return False


# ----------------------------------------------------------------------------- text streams
ALPHA = list(u"<>/=\"'&;?![]-{}:,# \n\t") + ["odML", "version", "1.1", "section", "property", "name",
                                                 "value", "Document", "odml-version", "sections", "a", "b",
                                                 "<?xml", "?>", "<!--", "-->", "<![CDATA[", "]]>",
                                                 "<!DOCTYPE", u"é", u"²", "\r", "&amp;", "&#13;",
                                                 "&e;", "encoding=", "\"UTF-8\"", "- ", ": ", "!!python/object",
                                                 "*x", "&x ", "%YAML", "---", "null", "true", "1e999", "\\u00"]


def random_text(rng):
    n = rng.randrange(0, 25)
    return "".join(rng.choice(ALPHA) for _ in range(n))


def mutate_text(text, rng):
    if not text:
        return text
    ops = rng.randrange(1, 4)
    for _ in range(ops):
        n = len(text)
        if n < 2:
            break
        r = rng.random()
        i = rng.randrange(0, n)
        j = min(n, i + rng.randrange(1, 40))
        if r < 0.2:
            text = text[:i] + text[j:]                            # delete a span
        elif r < 0.4:
            text = text[:j] + text[i:j] + text[j:]                # duplicate a span
        elif r < 0.55:
            text = text[:i] + rng.choice(ALPHA) + text[i:]        # insert a token
        elif r < 0.65:
            text = text[:i]                                       # truncate
        elif r < 0.8:
            words = re.findall(r"[A-Za-z_]{3,}", text)
            if words:
                w = rng.choice(words)
                repl = rng.choice([w.upper(), w.capitalize(), w[:-1], rng.choice(SEC_TAGS + PROP_TAGS),
                                   "sections", "properties", "Document"])
                text = text.replace(w, repl, rng.choice([1, 1, 50]))
        elif r < 0.9:
            k = rng.randrange(0, n)
            l = min(n, k + rng.randrange(1, 40))
            if j <= k:
                text = text[:i] + text[k:l] + text[j:k] + text[i:j] + text[l:]    # swap two spans
        else:
            text = text[:i] + text[i:j].swapcase() + text[j:]
    return text


_RES = {}


def resource_texts():
    """valid and invalid example files of the repository, by format"""
    if _RES:
        return _RES
    base = os.path.join(fw.REPO, "test", "resources")
    out = {"XML": [], "JSON": [], "YAML": []}
    if os.path.isdir(base):
        for name in sorted(os.listdir(base)):
            path = os.path.join(base, name)
            if not os.path.isfile(path) or os.path.getsize(path) > 30000:
                continue
            ext = name.rsplit(".", 1)[-1].lower()
            fmt = {"xml": "XML", "odml": "XML", "json": "JSON", "yaml": "YAML", "yml": "YAML"}.get(ext)
            if fmt is None:
                continue
            try:
                with io.open(path, encoding="utf-8") as fh:
                    out[fmt].append(fh.read())
            except Exception:
                pass
    _RES.update(out)
    return _RES


# ----------------------------------------------------------------------------- valid documents
def gen_valid_doc(rng):
    """description of a valid document: nested [name, type, props, subsections]"""
    def sec(depth, used):
        name = rng.choice([n for n in ["a", "b", "c", "d", "e", "ab"] if n not in used])
        used.add(name)
        props = []
        pused = set()
        for _ in range(rng.randrange(0, 3)):
            pn = rng.choice([n for n in ["p", "q", "r", "a"] if n not in pused])
            pused.add(pn)
            props.append([pn, rng.choice([[1, 2], ["x"], [], [1.5], ["a", "b"]])])
        subs = []
        sused = set()
        if depth < 3:
            for _ in range(rng.randrange(0, 3)):
                subs.append(sec(depth + 1, sused))
        return [name, "t", props, subs]
    used = set()
    return [sec(1, used) for _ in range(rng.randrange(1, 4))]


def build_doc(desc):
    import odml
    doc = odml.Document(author="x")

    def add(parent, d):
        s = odml.Section(name=d[0], type=d[1], parent=parent)
        for pn, vals in d[2]:
            odml.Property(name=pn, values=vals, parent=s)
        for sub in d[3]:
            add(s, sub)
    for d in desc:
        add(doc, d)
    return doc


def desc_paths(desc, prefix=""):
    out = []
    for d in desc:
        p = prefix + "/" + d[0]
        out.append(p)
        for pn, _ in d[2]:
            out.append(p + ":" + pn)
        out += desc_paths(d[3], p)
    return out


def doc_paths(doc):
    out = []

    def walk(sec, prefix):
        p = prefix + "/" + str(sec.name)
        out.append(p)
        for pr in sec.properties:
            out.append(p + ":" + str(pr.name))
        for sub in sec.sections:
            walk(sub, p)
    for s in doc.sections:
        walk(s, "")
    return out


BAD_PROPS = ['<property><name>zz</name><type>int</type><value>x</value></property>',
             '<property><name>zz</name><value>[a&#13;b,c]</value></property>',
             '<property><name>zz</name><val_cardinality>(1,\u00b3)</val_cardinality></property>',
             '<property><name>%(pdup)s</name></property>',
             '<property foo="1"><name>zz</name><section/><?pi?></property>']
ANY_FAULTS = ['<foo>1</foo>', '<?pi x?>', '<value>3</value>', '<NAME2/>', '<!-- c -->',
              '<section foo="1"><name>zz</name><type>t</type></section>',
              '<section><name>zz</name><section><name>k</name><type>t</type></section><section><name>k</name>'
              '<type>t</type></section></section>', '<section><name>%(sdup)s</name><type>t</type></section>']
DOC_FAULTS = ANY_FAULTS + ['<date>nonsense</date>', '<property><name>zz</name></property>', '<version/>']
SEC_FAULTS = ANY_FAULTS + BAD_PROPS + ['<sec_cardinality>(\u00b2,3)</sec_cardinality>', '<definition/>',
                                       '<prop_cardinality>x</prop_cardinality>']


# ----------------------------------------------------------------------------- running the readers
class _Timeout(Exception):
    pass


def _alarm(_sig, _frm):
    raise _Timeout()


@contextlib.contextmanager
def time_limit(seconds):
    old = signal.signal(signal.SIGALRM, _alarm)
    signal.alarm(seconds)
    try:
        yield
    finally:
        signal.alarm(0)
        signal.signal(signal.SIGALRM, old)


_TMP = []


def tmp_path(suffix):
    # one private directory per run, created in the parent (generate() asks for it before the
    # workers are forked) and removed when the parent exits; workers only add per-pid files
    if not _TMP:
        import atexit
        import shutil
        _TMP.append(tempfile.mkdtemp(prefix="c16_"))
        atexit.register(shutil.rmtree, _TMP[0], True)
    return os.path.join(_TMP[0], "case_%d%s" % (os.getpid(), suffix))


def name_enc(obj):
    nm = obj.name
    return {"n": to_jenc(nm), "is_id": bool(isinstance(nm, str) and nm == obj.id)}


def snapshot(doc):
    def sec(s):
        return {"name": name_enc(s), "props": [name_enc(p) for p in s.properties],
                "secs": [sec(x) for x in s.sections]}
    return {"secs": [sec(s) for s in doc.sections]}


def wf_problems(doc):
    """C03 / C04 for a loaded document, over the public API."""
    import odml
    out = []
    seen = set()

    def canonical(i):
        try:
            return isinstance(i, str) and str(uuid.UUID(i)) == i
        except Exception:
            return False

    def check_names(children, what, where):
        names = []
        for c in children:
            nm = c.name
            if nm is None or (isinstance(nm, str) and nm == "") or (not isinstance(nm, (str, int, float)) and not nm):
                out.append("%s with empty name in %s" % (what, where))
            for other in names:
                try:
                    same = (other == nm)
                except Exception:
                    same = False
                if same:
                    out.append("two %ss named %r in %s" % (what, nm, where))
            names.append(nm)

    def walk(node, parent, depth):
        if id(node) in seen:
            out.append("object reachable twice")
            return
        seen.add(id(node))
        if depth > 200:
            out.append("depth > 200")
            return
        if not canonical(node.id):
            out.append("id %r is not a canonical uuid" % (node.id,))
        if parent is not None and node.parent is not parent:
            out.append("child %r does not report its container as parent" % (node.name,))
        if isinstance(node, odml.property.BaseProperty):
            return
        check_names(node.sections, "Section", repr(getattr(node, "name", "document")))
        for s in node.sections:
            walk(s, node, depth + 1)
        if hasattr(node, "properties"):
            check_names(node.properties, "Property", repr(node.name))
            for p in node.properties:
                walk(p, node, depth + 1)
    if doc.parent is not None:
        out.append("document has a parent")
    walk(doc, None, 0)
    return out[:5]


def finish(res, reader_warnings, fn):
    """run fn() under the time limit and classify what happens"""
    import odml
    try:
        with time_limit(TIME_LIMIT):
            doc = fn()
    except _Timeout:
        res["outcome"] = "timeout"
        return res
    except Exception as exc:
        res["outcome"] = fw.exc_name(exc)
        res["warnings"] = len(reader_warnings())
        return res
    res["warnings"] = len(reader_warnings())
    if isinstance(doc, odml.doc.BaseDocument):
        res["outcome"] = "doc"
        try:
            with time_limit(TIME_LIMIT):
                res["doc"] = snapshot(doc)
                res["wf"] = wf_problems(doc)
                res["paths"] = doc_paths(doc)
        except _Timeout:
            res["outcome"] = "timeout"
        except Exception as exc:
            res["wf"] = ["inspecting the returned document raised %s" % fw.exc_name(exc)]
    else:
        res["outcome"] = "returned:" + type(doc).__name__
    return res


def run_xml(text, mode, entry):
    """entry: string | file | odml_string | odml_file"""
    from odml.tools.xmlparser import XMLReader
    from odml.tools.odmlparser import ODMLReader
    res = {}
    if entry in ("string", "file"):
        rd = XMLReader(ignore_errors=(mode == "lenient"), show_warnings=False)
        if entry == "string":
            return finish(res, lambda: rd.warnings, lambda: rd.from_string(text))
        path = tmp_path(".xml")
        with io.open(path, "w", encoding="utf-8", newline="") as fh:
            fh.write(text)
        return finish(res, lambda: rd.warnings, lambda: rd.from_file(path))
    rd = ODMLReader("XML", show_warnings=False)
    if entry == "odml_string":
        return finish(res, lambda: rd.warnings, lambda: rd.from_string(text))
    path = tmp_path(".xml")
    with io.open(path, "w", encoding="utf-8", newline="") as fh:
        fh.write(text)
    return finish(res, lambda: rd.warnings, lambda: rd.from_file(path))


def run_dict(value, mode):
    from odml.tools.dict_parser import DictReader
    rd = DictReader(show_warnings=False, ignore_errors=(mode == "lenient"))
    return finish({}, lambda: rd.warnings, lambda: rd.to_odml(value))


def run_dict_text(text, fmt, entry):
    from odml.tools.odmlparser import ODMLReader
    rd = ODMLReader(fmt, show_warnings=False)
    if entry == "odml_string":
        return finish({}, lambda: rd.warnings, lambda: rd.from_string(text))
    path = tmp_path("." + fmt.lower())
    with io.open(path, "w", encoding="utf-8", newline="") as fh:
        fh.write(text)
    return finish({}, lambda: rd.warnings, lambda: rd.from_file(path))


def decode_text(text, fmt):
    """what the text decodes to, done by the harness itself: ('value', v) or ('undecodable', cls)"""
    try:
        with time_limit(TIME_LIMIT):
            if fmt == "JSON":
                return ("value", json.loads(text))
            import yaml
            return ("value", yaml.safe_load(text))
    except _Timeout:
        return ("undecodable", "timeout")
    except Exception as exc:
        return ("undecodable", fw.exc_name(exc))


def format_version():
    from odml.info import FORMAT_VERSION
    return FORMAT_VERSION


def xml_root_ok(text):
    """well-formed XML with an odML root of the current version (decided with lxml directly)"""
    from lxml import etree
    try:
        root = etree.fromstring(text.encode("utf-8"))
    except Exception:
        return False
    return root.tag == "odML" and root.get("version") == format_version()


def dict_root_ok(value):
    return isinstance(value, dict) and isinstance(value.get("Document"), dict) and \
        "odml-version" in value and value.get("odml-version") == format_version()


def dict_shaped(value):
    """'input shaped like an odML dictionary': a mapping (weakest reading)"""
    return isinstance(value, dict)


# ----------------------------------------------------------------------------- model access from the workers
_DRV = {}


def driver_ask(req):
    """one request to a per-process driver (None when the driver is not available)"""
    pid = os.getpid()
    proc = _DRV.get(pid)
    if proc is None:
        exe = os.path.join(fw.BIN, "drv_c16")
        if not os.path.exists(exe):
            return None
        proc = subprocess.Popen([exe], stdin=subprocess.PIPE, stdout=subprocess.PIPE, stderr=subprocess.DEVNULL)
        _DRV.clear()
        _DRV[pid] = proc
    try:
        proc.stdin.write((json.dumps(req, ensure_ascii=True) + "\n").encode("utf-8"))
        proc.stdin.flush()
        ready, _, _ = select.select([proc.stdout], [], [], 60)
        if not ready:
            raise IOError("driver does not answer")
        line = proc.stdout.readline()
        ans = json.loads(line.decode("utf-8"))
    except Exception:
        _DRV.pop(pid, None)
        try:
            proc.kill()
        except Exception:
            pass
        return None
    return ans.get("r")


def real_from_csv():
    try:
        from odml.tools.xmlparser import from_csv
        return from_csv
    except ImportError:
        return None


def csv_failures(node, out):
    """texts of the tree on which the real from_csv raises"""
    f = real_from_csv()
    if f is None or "o" in node:
        return
    txt = node["x"]
    if txt and txt not in out:
        try:
            f(txt)
        except Exception:
            out.append(txt)
    for k in node["k"]:
        csv_failures(k, out)


KIND_CLASS = {"odML": "Document", "section": "Section", "property": "Property"}


def ask_constructor(kind, kwargs):
    """does the real constructor raise on these keyword arguments; which name does the object report
    when it was not given one (None = a fresh uuid each time)"""
    import odml
    klass = getattr(odml, KIND_CLASS[kind])
    try:
        o1 = klass(**kwargs)
    except Exception:
        return True, None
    auto = None
    if kind != "odML":
        try:
            o2 = klass(**kwargs)
            if isinstance(o1.name, str) and o1.name == o2.name:
                auto = o1.name
        except Exception:
            pass
    return False, auto


def xml_env(tree, csvfail):
    calls = driver_ask({"op": "xml_calls", "tree": tree, "csvfail": csvfail})
    if calls is None:
        return None
    f = real_from_csv()
    env = []
    seen = set()
    for c in calls:
        key = fw.canon(c)
        if key in seen:
            continue
        seen.add(key)
        kwargs = {}
        bad = False
        for k, v in c["args"]:
            if v is None:
                kwargs[k] = None
            elif "s" in v:
                kwargs[k] = v["s"]
            elif "csv" in v:
                if f is None:
                    bad = True
                    break
                kwargs[k] = f(v["csv"])
            else:
                kwargs[k] = tuple(v["card"]) if v["card"] is not None else None
        if bad:
            return None
        fail, auto = ask_constructor(c["kind"], kwargs)
        env.append({"kind": c["kind"], "args": c["args"], "fail": fail, "auto": auto})
    return env


def dict_env(value):
    calls = driver_ask({"op": "dict_calls", "value": value})
    if calls is None:
        return None
    env = []
    for c in calls:
        kwargs = {}
        for k, v in c["args"]:
            if "raw" in v:
                kwargs[k] = to_py(v["raw"])
            else:
                kwargs[k] = tuple(v["card"]) if v["card"] is not None else None
        fail, auto = ask_constructor(c["kind"], kwargs)
        env.append({"kind": c["kind"], "args": c["args"], "fail": fail,
                    "auto": None if auto is None else {"g": auto}})
    return env


# ----------------------------------------------------------------------------- the check
class C16(fw.Check):
    prop = "C16"
    lean_targets = ["OdmlModel.Props.C16"]
    obligations = ["C16." + t for t in [
        "readXml_total",
        "lenient_never_raises",
        "strict_only_parser_exception",
        "readXmlText_total",
        "invalid_version_iff",
        "root_tag_in_tables",
        "rootOk_of_attrs",
        "readDict_total",
        "dict_lenient_never_raises",
        "dict_strict_only_parser_exception",
        "insert_keeps_valid_parts",
        "insert_keeps_names_unique",
        "insert_lenient_total",
        "dict_insert_keeps_valid_parts",
        "dict_insert_keeps_names_unique",
        "original_leaks_duplicate_names",
        "original_leaks_processing_instruction",
        "original_leaks_csv_error",
        "original_leaks_superscript_cardinality",
        "original_leaks_encoding_declaration",
        "original_dict_leaks_duplicate_names",
        "original_dict_leaks_document_creation",
        "original_dict_leaks_non_dict_root",
        "original_dict_leaks_wrong_shapes",
        "original_dict_drops_valid_section",
    ]]
    trusted_base = [
        "Lean 4.33.0 kernel; axioms propext, Classical.choice, Quot.sound only (audited per theorem)",
        "hand-written model lean/OdmlModel/Model/Reader.lean (+ReaderXml.lean), tied to /repo by this run",
        "harness/extract_tables.py (format._args/_map tables regenerated into Lean on every run)",
        "Driver/C16.lean JSON glue; harness/framework.py, harness/c16.py",
        "text -> tree: lxml raises only XMLSyntaxError/ValueError on text; json/yaml decoding is outside "
        "the property (fuzzed with arbitrary strings, not modelled)",
    ]
    assumptions = [
        "what the odML constructors, from_csv and uuid.UUID do is a parameter of the model (Env); the "
        "harness fills it per case by calling the real constructors on the arguments the model computed",
        "a fresh uuid4 equals no other name; str.lower()/isdigit() modelled for ASCII plus the superscript "
        "digits; generated tags are ASCII",
        "names in dictionaries compare with Python ==; modelled for None/bool/int/str/list/dict "
        "(True == 1 at top level), floats by repr",
        "nesting depth of generated inputs stays far below Python's recursion limit",
    ]
    rule = ("grammar-generated abstract XML trees and JSON-like values over the odML element names "
            "(wrong nesting, repeated/missing/unknown/case-variant elements, attributes, empty text, "
            "unparsable values/dates/ids/cardinalities, duplicate sibling names, PIs, comments, wrong "
            "container types) x strict/lenient x string/file/ODMLReader entry points x XML/JSON/YAML; "
            "arbitrary token strings and structural mutations of the repository's resource files and of "
            "generated documents; valid documents with one injected fault. A case is non-trivial when the "
            "reader got past the version check (document returned, or ParserException from inside the "
            "tree, or warnings collected); distinct = distinct canonical JSON of the case.")

    # -- generation ----------------------------------------------------------
    def generate(self, tier, rng):
        tmp_path("")            # create the run directory before the workers fork
        q = tier == "quick"
        cases = []
        n_tree = 1500 if q else 15000
        for _ in range(n_tree):
            tree = gen_xml_doc(rng)
            for mode in ("strict", "lenient"):
                cases.append({"stream": "xml_tree", "tree": tree, "mode": mode,
                              "entry": rng.choice(["string", "string", "file"])})
        n_dict = 1500 if q else 15000
        for _ in range(n_dict):
            val = gen_dict_doc(rng)
            for mode in ("strict", "lenient"):
                cases.append({"stream": "dict_tree", "value": val, "mode": mode,
                              "via": rng.choice(["direct", "direct", "JSON", "YAML"])})
        # arbitrary strings and mutated files
        res = resource_texts()
        n_text = 800 if q else 10000
        for _ in range(n_text):
            r = rng.random()
            if r < 0.35 or not res["XML"]:
                text = rng.choice(['<odML version="1.1">%s</odML>', "%s", '<?xml version="1.0" encoding="UTF-8"?>\n'
                                   '<odML version="1.1">%s</odML>']) % random_text(rng)
            elif r < 0.7:
                text = mutate_text(rng.choice(res["XML"]), rng)
            else:
                text = mutate_text(serialize(gen_xml_doc(rng)), rng)
            cases.append({"stream": "xml_text", "text": text, "mode": rng.choice(["strict", "lenient"]),
                          "entry": rng.choice(["string", "file", "odml_string", "odml_file"])})
        for _ in range(n_text):
            fmt = rng.choice(["JSON", "YAML"])
            r = rng.random()
            if r < 0.3 or not res[fmt]:
                text = random_text(rng)
            elif r < 0.65:
                text = mutate_text(rng.choice(res[fmt]), rng)
            else:
                text = mutate_text(json.dumps(to_py(gen_dict_doc(rng)), default=repr, indent=rng.choice([None, 1])), rng)
            cases.append({"stream": "dict_text", "text": text, "format": fmt,
                          "entry": rng.choice(["odml_string", "odml_file"])})
        # valid documents with one injected fault
        n_keep = 400 if q else 5000
        for _ in range(n_keep):
            desc = gen_valid_doc(rng)
            cases.append({"stream": "keep", "desc": desc, "format": rng.choice(["XML", "XML", "JSON", "YAML"]),
                          "fault": rng.randrange(0, 1000), "where": rng.randrange(0, 1000)})
        return cases

    # -- implementation ------------------------------------------------------
    def impl(self, case):
        st = case["stream"]
        if st == "xml_tree":
            text = serialize(case["tree"])
            obs = run_xml(text, case["mode"], case["entry"])
            obs["root_ok"] = xml_root_ok(text)
            mt = model_tree(case["tree"])
            csvfail = []
            csv_failures(mt, csvfail)
            obs["csvfail"] = csvfail
            obs["env"] = xml_env(mt, csvfail)
            return obs
        if st == "xml_text":
            obs = run_xml(case["text"], case["mode"], case["entry"])
            obs["root_ok"] = xml_root_ok(case["text"])
            return obs
        if st == "dict_tree":
            val = to_py(case["value"])
            via = case["via"]
            if via != "direct" and not (json_like(val) and isinstance(val, (dict, list))):
                via = "direct"
            if via == "direct":
                obs = run_dict(val, case["mode"])
            else:
                import yaml
                text = json.dumps(val) if via == "JSON" else yaml.safe_dump(val, sort_keys=False)
                # ODMLReader: from_string is strict for both; from_file is lenient for YAML, strict for JSON
                entry = "odml_string" if case["mode"] == "strict" else "odml_file"
                if via == "JSON" and case["mode"] == "lenient":
                    obs = run_dict(val, "lenient")
                    via = "direct"
                else:
                    obs = run_dict_text(text, via, entry)
            obs["via"] = via
            obs["root_ok"] = dict_root_ok(val)
            obs["shaped"] = dict_shaped(val)
            obs["env"] = dict_env(case["value"])
            return obs
        if st == "dict_text":
            obs = run_dict_text(case["text"], case["format"], case["entry"])
            kind, val = decode_text(case["text"], case["format"])
            obs["decoded"] = kind
            if kind == "value":
                obs["shaped"] = dict_shaped(val)
                obs["root_ok"] = dict_root_ok(val)
                # from_file is lenient for YAML only
                obs["lenient"] = case["format"] == "YAML" and case["entry"] == "odml_file"
            else:
                obs["undecodable"] = val
            return obs
        if st == "keep":
            return self.impl_keep(case)
        raise ValueError(st)

    def impl_keep(self, case):
        from odml.tools.odmlparser import ODMLWriter
        doc = build_doc(case["desc"])
        fmt = case["format"]
        text = ODMLWriter(fmt).to_string(doc)
        want = desc_paths(case["desc"])
        first = case["desc"][0]
        last = case["desc"][-1]
        if fmt == "XML":
            if case["where"] % 2 == 0:
                # last child of the document; a duplicate of a top-level name comes after the original
                fault = DOC_FAULTS[case["fault"] % len(DOC_FAULTS)] % {"sdup": first[0]}
                idx = text.rfind("</odML>")
            else:
                # last child of the last top-level section
                fault = SEC_FAULTS[case["fault"] % len(SEC_FAULTS)] % {
                    "sdup": last[3][0][0] if last[3] else "zz", "pdup": last[2][0][0] if last[2] else "zz"}
                idx = text.rfind("</section>")
            if "dup" not in (DOC_FAULTS + SEC_FAULTS)[0] and case["fault"] % 2 == 1 and \
                    "%(" not in (DOC_FAULTS if case["where"] % 2 == 0 else SEC_FAULTS)[
                        case["fault"] % len(DOC_FAULTS if case["where"] % 2 == 0 else SEC_FAULTS)]:
                # faults that are no duplicates also go in front of all valid siblings
                m = re.search(r"<odML[^>]*>" if case["where"] % 2 == 0 else r"<section>", text)
                if m:
                    idx = m.end()
            if idx < 0:
                return {"skipped": "no insertion point"}
            if "dup" in (DOC_FAULTS if case["where"] % 2 == 0 else SEC_FAULTS)[
                    case["fault"] % len(DOC_FAULTS if case["where"] % 2 == 0 else SEC_FAULTS)]:
                # a valid sibling after the refused duplicate has to survive as well
                fault += "<section><name>yy</name><type>t</type></section>"
                want = want + [("/yy" if case["where"] % 2 == 0 else "/" + last[0] + "/yy")]
            text = text[:idx] + fault + text[idx:]
            obs = run_xml(text, "lenient", "string" if case["where"] % 3 else "odml_file")
            obs["root_ok"] = xml_root_ok(text)
        else:
            import yaml
            data = json.loads(text) if fmt == "JSON" else yaml.safe_load(text)
            secs = data["Document"]["sections"]
            which = case["fault"] % 7
            if which == 0:
                secs.append({"name": first[0], "type": "t"})                      # duplicate top-level name
            elif which == 1:
                secs[0].setdefault("sections", []).extend([{"name": "k", "type": "t"}, {"name": "k", "type": "t"}])
            elif which == 2:
                secs[0].setdefault("properties", []).insert(0, {"name": "zz", "type": "int", "value": ["x"]})
            elif which == 3:
                secs[0]["foo"] = 1
            elif which == 4:
                data["Document"]["date"] = "nonsense"
            elif which == 5:
                secs.insert(0, 5)
                secs.insert(1, {"name": "zz", "type": "t", "section": []})     # creation fails
            else:
                secs[0].setdefault("properties", []).extend([{"name": "zz"}, {"name": "zz"}, None])
                secs[0]["properties"].insert(0, [1])
            obs = run_dict(data, "lenient")
            obs["root_ok"] = dict_root_ok(data)
        obs["want"] = want
        return obs

    # -- model ---------------------------------------------------------------
    def model_requests(self, case, obs):
        st = case["stream"]
        if st == "xml_tree" and obs.get("env") is not None:
            return [{"op": "xml_read", "tree": model_tree(case["tree"]), "mode": case["mode"],
                     "guards": "fixed", "csvfail": obs["csvfail"], "env": obs["env"]}]
        if st == "dict_tree" and obs.get("env") is not None:
            mode = case["mode"]
            return [{"op": "dict_read", "value": case["value"], "mode": mode, "guards": "fixed",
                     "env": obs["env"]}]
        return []

    @staticmethod
    def snap_matches(model_obj, impl_snap):
        """model Obj (driver encoding) against the snapshot of the returned document"""
        def name_ok(mn, iname):
            if mn is None:
                return iname["is_id"]
            return mn["g"] == iname["n"]

        def sec_ok(mo, isec):
            if not name_ok(mo["name"], isec["name"]):
                return False
            if len(mo["props"]) != len(isec["props"]) or len(mo["secs"]) != len(isec["secs"]):
                return False
            for mp, ip in zip(mo["props"], isec["props"]):
                if not name_ok(mp["name"], ip):
                    return False
            return all(sec_ok(a, b) for a, b in zip(mo["secs"], isec["secs"]))
        if len(model_obj["secs"]) != len(impl_snap["secs"]):
            return False
        return all(sec_ok(a, b) for a, b in zip(model_obj["secs"], impl_snap["secs"]))

    def compare(self, case, obs, answers):
        if not answers:
            return []
        a = answers[0]
        out = []
        want = a["outcome"]
        if want == "leak":
            want = "leak of " + a.get("class", "?")
        if want != obs.get("outcome"):
            return ["model outcome %s, implementation outcome %s" % (want, obs.get("outcome"))]
        if want == "doc":
            if obs.get("via", "direct") == "direct" and a["warnings"] != obs.get("warnings"):
                out.append("model collects %d warnings, implementation %s" % (a["warnings"], obs.get("warnings")))
            if "doc" in obs and not self.snap_matches(a["doc"], obs["doc"]):
                out.append("model document %s, implementation document %s"
                           % (json.dumps(a["doc"])[:600], json.dumps(obs["doc"])[:600]))
        return out

    # -- oracle (property over the public API, independent of the model) ------
    def oracle(self, case, obs):
        if "harness_exception" in obs or "skipped" in obs:
            return []
        st = case["stream"]
        out = []
        outcome = obs.get("outcome")
        if outcome == "timeout":
            return ["reader did not return within %d s" % TIME_LIMIT]
        in_scope = True
        lenient = case.get("mode") == "lenient"
        if st == "xml_text" and case["entry"] in ("odml_string", "odml_file"):
            lenient = case["entry"] == "odml_file"
        if st == "keep":
            lenient = True
        if st == "dict_tree":
            in_scope = obs.get("shaped", False)
        if st == "dict_text":
            in_scope = obs.get("decoded") == "value" and obs.get("shaped", False)
            lenient = obs.get("lenient", False)
        if in_scope and outcome not in ALLOWED:
            out.append("reader ended with %s (neither a Document nor a ParserException)" % outcome)
        if in_scope and lenient and obs.get("root_ok") and outcome != "doc":
            out.append("lenient reader raised %s on well-formed input with a current odML root" % outcome)
        if outcome == "doc":
            for p in obs.get("wf", []):
                out.append("returned document is not well-formed: %s" % p)
        if st == "keep" and outcome == "doc":
            have = set(obs.get("paths", []))
            missing = [p for p in obs["want"] if p not in have]
            if missing:
                out.append("lenient reader dropped valid parts: %s" % missing[:4])
        return out

    def finding_key(self, case, obs, failure):
        return None

    def tag(self, case, obs):
        st = case["stream"]
        outcome = obs.get("outcome", "?")
        if outcome not in ALLOWED:
            outcome = "other"
        nontrivial = (outcome == "doc") or bool(obs.get("warnings")) or \
                     (outcome == "ParserException" and bool(obs.get("root_ok")))
        mode = case.get("mode", "")
        return ("%s:%s:%s" % (st, mode, outcome), nontrivial)


if __name__ == "__main__":
    sys.exit(fw.main(C16(), sys.argv[1:]))
