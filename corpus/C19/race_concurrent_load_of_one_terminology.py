#!/usr/bin/env python
"""
Stand-alone, deterministic reproduction of a race in odml/terminology.py (found by `./check C19
thorough` under machine load, seeded round 5 follow-up).  Not a corpus case (the framework reads
*.json only); run:  PYTHONPATH=/repo python race_concurrent_load_of_one_terminology.py

Two loads of the SAME terminology URL can run at the same time: `Terminologies.load` runs `_load` in the
calling thread without entering it into `Terminologies.loading`, so a `deferred_load(url)` issued meanwhile
(by the loader thread of another terminology file that INCLUDES this one, or by a repository / include
setter) starts a second `_load(url)`.  `cache_load` writes its cache copy in place:

    thread A (load):           os.path.exists(cache_file) -> False; fetch; open(cache_file, "w")   # file exists, EMPTY
    thread B (deferred_load):  os.path.exists(cache_file) -> True;  open(cache_file) -> ""          # reads the empty copy
                               XMLReader raises ParserException -> term = None -> self[url] = None
    thread A:                  write, close, read back, parse, finalize: a perfect Document
                               `if url in self: return self[url]`  -> returns None, Document dropped

From then on the URL is "loaded" as None for the whole process: section_repository_present reports "Section
type ... not found in terminology" for every Section below that repository and property_terminology_check
reports nothing, where every other process (and every other schedule) reports the issues of the real
terminology: the same unchanged objects, another collection of issues (C19), depending on timing only.

The interleaving is forced with two events by shadowing `open` in the namespace of odml.terminology (no
library code is changed): A is held between open(cache_file, "w") and the write until B has finished.
"""
import os
import shutil
import sys
import tempfile
import threading

import odml
import odml.terminology as ot
from odml.validation import Validation, section_repository_present, property_terminology_check

TERMINOLOGY = """<?xml version="1.0" encoding="UTF-8"?>
<odML version="1.1">
  <section><name>T1</name><type>recording</type>
    <property><name>Duration</name></property>
  </section>
</odML>
"""


def issues(doc):
    val = Validation(doc, validate=False, reset=True)
    val.register_custom_handler("section", section_repository_present)
    val.register_custom_handler("property", property_terminology_check)
    val.run_validation()
    return sorted((e.obj.name, e.validation_id.name) for e in val.errors)


def main():
    tmp = tempfile.mkdtemp(prefix="c19_race_")
    path = os.path.join(tmp, "c19_race_terminology_%d.xml" % os.getpid())
    with open(path, "w") as fh:
        fh.write(TERMINOLOGY)
    url = "file://" + path
    opened, go = threading.Event(), threading.Event()
    real_open = open

    def slow_open(name, mode="r", *args, **kwargs):
        fobj = real_open(name, mode, *args, **kwargs)
        if "w" in mode and threading.current_thread() is threading.main_thread():
            opened.set()           # the cache copy exists now - and is empty
            go.wait(30)            # ... A is descheduled here
        return fobj

    def second_loader():
        # what the loader thread of a terminology that includes `url` does (Section.include setter):
        opened.wait(30)
        ot.deferred_load(url)
        for thread in list(ot.terminologies.loading.values()):
            thread.join(30)
        go.set()

    helper = threading.Thread(target=second_loader)
    cache_file = None
    try:
        ot.open = slow_open
        helper.start()
        # the document as a reader builds it: repository handed over as constructor argument, nothing
        # is fetched before the first validation
        doc = odml.Document(repository=url)
        sec = odml.Section(name="s", type="recording", parent=doc)
        odml.Property(name="Duration", values=[1], parent=sec)
        odml.Property(name="other", values=[1], parent=sec)
        first = issues(doc)        # the first load of `url` happens in here (thread A = main thread)
        helper.join(60)
        del ot.open
        again = issues(doc)
        expected = [("other", "property_terminology_check")]
        print("first validation :", first)
        print("second validation:", again)
        print("table entry      :", ot.terminologies.get(url, "absent"))
        print("expected         :", expected)
        ok = first == expected and again == expected
        print("PASS" if ok else "FAIL: the terminology was fetched and parsed, but the table holds None "
              "(the empty cache copy read by the concurrent load won)")
        return 0 if ok else 1
    finally:
        if hasattr(ot, "open") and "open" in vars(ot):
            del ot.open
        go.set()
        ot.terminologies.pop(url, None)
        ot.terminologies.loading.pop(url, None)
        shutil.rmtree(tmp, ignore_errors=True)
        cache = os.path.join(tempfile.gettempdir(), "odml.cache")
        if os.path.isdir(cache):
            for entry in os.listdir(cache):
                if entry.endswith("." + os.path.basename(path)):
                    os.remove(os.path.join(cache, entry))


if __name__ == "__main__":
    sys.exit(main())
