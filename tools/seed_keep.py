#!/usr/bin/env python3
"""Keeps a confirmed seeded change: copies <dir>/{patch.diff,demo.py,notes.txt} to seeded/<id>/ and writes
meta.json from <dir>/eval.json (written by tools/seed_eval.py).  usage: seed_keep.py <dir> <id>"""
import json, os, shutil, sys
V = os.path.dirname(os.path.dirname(os.path.abspath(__file__)))
d, sid = sys.argv[1], sys.argv[2]
ev = json.load(open(os.path.join(d, "eval.json")))
if not ev.get("confirmed"):
    raise SystemExit("not confirmed: %s" % d)
out = os.path.join(V, "seeded", sid)
os.makedirs(out, exist_ok=True)
for n in ("patch.diff", "demo.py", "notes.txt"):
    if os.path.exists(os.path.join(d, n)):
        shutil.copy(os.path.join(d, n), os.path.join(out, n))
notes = open(os.path.join(d, "notes.txt")).read() if os.path.exists(os.path.join(d, "notes.txt")) else ""
meta = {
    "id": sid,
    "property": ev["property"],
    "author": "independent sub-agent given only the property text and a scratch worktree",
    "touches": ev.get("files"),
    "needs_to_manifest": notes.strip(),
    "confirmed": {
        "repo_head": ev.get("repo_head"),
        "how": "tools/seed_eval.py: fresh scratch worktree of /repo; demo.py on the clean checkout; git apply patch.diff; "
               "tools/suite.sh (pinned suite); demo.py with the patch; ./check <property> against the patched worktree "
               "(ODML_REPO=<worktree>, evidence redirected); worktree removed",
        "demo_clean_exit": ev["demo_clean"]["exit"],
        "suite_with_patch": ev.get("suite"),
        "demo_patched_exit": ev["demo_patched"]["exit"],
        "demo_patched_output": ev["demo_patched"]["tail"],
    },
    "checks_run": ev.get("runs", []),
    "caught_by": ev.get("caught_by", []),
}
json.dump(meta, open(os.path.join(out, "meta.json"), "w"), indent=1)
print(sid, "kept; caught by", meta["caught_by"])
