#!/usr/bin/env python3
"""Prints the markdown table of DESIGN.md section 18 from seeded/*/meta.json."""
import glob, json, os, re
V = os.path.dirname(os.path.dirname(os.path.abspath(__file__)))
print("| Id | Round | Touches | Needs | Caught by | First run |")
print("|---|---|---|---|---|---|")
for q in sorted(glob.glob(os.path.join(V, "seeded", "*", "meta.json"))):
    d = json.load(open(q))
    patch = open(os.path.join(os.path.dirname(q), "patch.diff")).read()
    files = sorted(set(re.findall(r"^diff --git a/(\S+)", patch, re.M)))
    funcs = sorted(set(m.strip() for m in re.findall(r"^@@.*@@\s*(?:def|class)\s+(\w+)", patch, re.M)))
    notes = " ".join(d["needs_to_manifest"].split())
    m = re.search(r"(?i)needs?[^.:]*[:.]?\s*(.{20,260}?)(?:\.\s|$)", notes)
    need = (m.group(1) if m else notes[:200]).replace("|", "/")
    how = []
    for r in d.get("checks_run", []):
        if r["exit"] == 1:
            kind = {"oracle": "failing input", "tie": "broken correspondence, no-failing-input-found"}.get(r.get("replay_kind"), "violation")
            how.append("%s %s (%s)" % (r["check"], r["tier"], kind))
    fr = d.get("first_run", {"result": "caught"})
    if fr["result"].startswith("caught"):
        first = "at once"
    elif fr.get("strengthened"):
        first = "after strengthening: " + fr["strengthened"].replace("|", "/")
    else:
        first = fr["result"].replace("|", "/")
    print("| %s | %s | %s%s | %s | %s | %s |" % (d["id"], d.get("round", "?"), ", ".join(os.path.basename(f) for f in files),
                                          (" (" + ", ".join(funcs[:3]) + ")") if funcs else "", need,
                                          "; ".join(how) or "-", first))
