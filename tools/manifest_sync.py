"""Assembles MANIFEST.json: checks from manifest.d/Cxx.json, setup_cmd for the claimed drivers,
   not_applicable for every property without a check."""
import json, os, glob
V='/verif'
m=json.load(open(V+'/MANIFEST.json'))
checks=[json.load(open(p)) for p in sorted(glob.glob(V+'/manifest.d/C*.json'))]
m['checks']=checks
ids=[json.loads(l)['id'] for l in open(V+'/properties.jsonl')]
claimed=[c['property_id'] for c in checks]
drivers=' '.join('drv_'+c.lower() for c in claimed)
targets=' '.join('OdmlModel.Props.%s' % c for c in claimed)
m['setup_cmd']="/venv/bin/python harness/extract_tables.py && cd lean && lake build %s %s" % (targets, drivers)
open(V+'/lean/OdmlModel.lean','w').write(''.join('import OdmlModel.Props.%s\n' % c for c in claimed))
keep={n['property_id']:n for n in m.get('not_applicable',[]) if n['property_id'] not in claimed and not n['reason'].startswith('not built yet')}
m['not_applicable']=[keep.get(i, {"property_id": i, "reason": "not built yet: the Lean model, theorems and correspondence for this property are planned (DESIGN.md section 8) but not committed; nothing is claimed"}) for i in ids if i not in claimed]
json.dump(m, open(V+'/MANIFEST.json','w'), indent=1)
print(len(claimed),'claimed;',len(m['not_applicable']),'not claimed')
