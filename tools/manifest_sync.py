"""Keeps MANIFEST.not_applicable listing every property that has no check yet."""
import json
m=json.load(open('/verif/MANIFEST.json'))
ids=[json.loads(l)['id'] for l in open('/verif/properties.jsonl')]
claimed={c['property_id'] for c in m['checks']}
keep={n['property_id']:n for n in m.get('not_applicable',[]) if n['property_id'] not in claimed and not n['reason'].startswith('not built yet')}
out=[]
for i in ids:
    if i in claimed: continue
    out.append(keep.get(i, {"property_id": i, "reason": "not built yet: the Lean model, theorems and correspondence for this property are planned (DESIGN.md section 8) but not committed; nothing is claimed"}))
m['not_applicable']=out
json.dump(m, open('/verif/MANIFEST.json','w'), indent=1)
print(len(claimed),'claimed;',len(out),'listed as not claimed')
