#!/usr/bin/env python3
"""
Evaluates one seeded change (a directory with patch.diff + demo.py [+ notes.txt]) :

  1. confirms it in a fresh scratch worktree of /repo (outside /repo and /verif):
     demo passes on the clean checkout, patch applies, the pinned suite still passes (238/238),
     demo fails with the patch;
  2. runs the registered checks (quick tier, optionally thorough) of the given properties against
     the patched worktree (ODML_REPO=<worktree>; evidence and replays redirected to a scratch dir so
     the committed evidence is not touched) and records which of them report a VIOLATION;
  3. removes the scratch worktree.

usage: tools/seed_eval.py <dir> <primary property> [--also C03,C06,...] [--thorough] [--seeds 0,1]
Prints one JSON object (also written to <dir>/eval.json).
"""
import json
import os
import re
import shutil
import subprocess
import sys
import tempfile
import time

VERIF = os.path.dirname(os.path.dirname(os.path.abspath(__file__)))
PY = "/venv/bin/python"


def sh(cmd, cwd=None, env=None, timeout=3600):
    e = dict(os.environ)
    if env:
        e.update(env)
    t0 = time.time()
    try:
        p = subprocess.run(cmd, cwd=cwd, env=e, stdout=subprocess.PIPE, stderr=subprocess.STDOUT,
                           timeout=timeout, shell=isinstance(cmd, str))
        return p.returncode, p.stdout.decode("utf-8", "replace"), time.time() - t0
    except subprocess.TimeoutExpired as exc:
        return 124, (exc.stdout or b"").decode("utf-8", "replace") + "\nTIMEOUT", time.time() - t0


def main(argv):
    d = os.path.abspath(argv[0])
    prop = argv[1]
    also = []
    tiers = ["quick"]
    seeds = ["0"]
    i = 2
    while i < len(argv):
        if argv[i] == "--also":
            also = [x for x in argv[i + 1].split(",") if x]
            i += 2
        elif argv[i] == "--thorough":
            tiers.append("thorough")
            i += 1
        elif argv[i] == "--seeds":
            seeds = argv[i + 1].split(",")
            i += 2
        else:
            raise SystemExit("bad argument " + argv[i])
    patch = os.path.join(d, "patch.diff")
    demo = os.path.join(d, "demo.py")
    scratch = tempfile.mkdtemp(prefix="seedeval_")
    wt = os.path.join(scratch, "wt")
    res = {"dir": d, "property": prop, "confirmed": False}
    try:
        code, out, _ = sh(["git", "-C", "/repo", "worktree", "add", "--detach", wt, "HEAD"])
        if code != 0:
            raise SystemExit("worktree add failed: " + out)
        res["repo_head"] = sh(["git", "-C", "/repo", "rev-parse", "--short", "HEAD"])[1].strip()
        env = {"PYTHONPATH": wt, "PYTHONDONTWRITEBYTECODE": "1"}
        code, out, _ = sh([PY, demo], cwd=scratch, env=env, timeout=600)
        res["demo_clean"] = {"exit": code, "tail": out.strip()[-300:]}
        code, out, _ = sh(["git", "-C", wt, "apply", patch])
        res["patch_applies"] = code == 0
        if code != 0:
            res["patch_error"] = out[-500:]
            return res
        res["files"] = sh(["git", "-C", wt, "diff", "--stat"])[1].strip().split("\n")[-1].strip()
        code, out, _ = sh([os.path.join(VERIF, "tools", "suite.sh")], env={"ODML_REPO": wt}, timeout=1800)
        res["suite"] = out.strip().split("\n")[0] if out.strip() else ""
        res["suite_ok"] = code == 0
        code, out, _ = sh([PY, demo], cwd=scratch, env=env, timeout=600)
        res["demo_patched"] = {"exit": code, "tail": out.strip()[-400:]}
        res["confirmed"] = (res["demo_clean"]["exit"] == 0 and res["suite_ok"]
                            and res["demo_patched"]["exit"] not in (0, 124))
        runs = []
        for p in [prop] + also:
            for tier in tiers:
                for seed in seeds:
                    ev = os.path.join(scratch, "evidence")
                    rp = os.path.join(scratch, "replays")
                    code, out, wall = sh([os.path.join(VERIF, "check"), p, tier],
                                         env={"ODML_REPO": wt, "VERIF_SEED": seed,
                                              "VERIF_EVIDENCE_DIR": ev, "VERIF_REPLAY_DIR": rp},
                                         timeout=5400)
                    vio = [l for l in out.split("\n") if l.startswith("VIOLATION")]
                    entry = {"check": p, "tier": tier, "seed": seed, "exit": code,
                             "violation": vio[:2], "wall_s": round(wall, 1),
                             "summary": out.strip().split("\n")[-1][-200:]}
                    if vio:
                        m = re.search(r"replay=(\S+)", vio[0])
                        if m:
                            rpath = m.group(1)
                            if not os.path.isabs(rpath):
                                rpath = os.path.join(VERIF, rpath)
                            try:
                                data = json.load(open(rpath))
                                entry["replay_kind"] = data.get("kind")
                                fl = data.get("failures") or []
                                if fl:
                                    entry["first_failure"] = str(fl[0])[:400]
                                elif "broken" in data:
                                    entry["broken"] = json.dumps(data["broken"])[:500]
                            except Exception as exc:      # noqa
                                entry["replay_read_error"] = str(exc)
                    runs.append(entry)
                    if code == 1:
                        break
                if runs and runs[-1]["exit"] == 1 and runs[-1]["check"] == p:
                    break
        res["runs"] = runs
        res["caught_by"] = sorted(set(r["check"] for r in runs if r["exit"] == 1))
        return res
    finally:
        sh(["git", "-C", "/repo", "worktree", "remove", "--force", wt])
        shutil.rmtree(scratch, ignore_errors=True)
        sh(["git", "-C", "/repo", "worktree", "prune"])
        with open(os.path.join(d, "eval.json"), "w") as fh:
            json.dump(res, fh, indent=1)
        print(json.dumps(res, indent=1))


if __name__ == "__main__":
    main(sys.argv[1:])
