import json, jsonschema, glob, sys
m=json.load(open('/verif/MANIFEST.json'))
jsonschema.validate(m, json.load(open('/root/.vp/MANIFEST.schema.json')))
es=json.load(open('/root/.vp/EVIDENCE.schema.json'))
for c in m['checks']:
    try:
        jsonschema.validate(json.load(open('/verif/'+c['evidence_file'])), es); print(c['property_id'],'evidence ok')
    except Exception as e: print(c['property_id'],'EVIDENCE PROBLEM', str(e)[:300])
ids=[json.loads(l)['id'] for l in open('/verif/properties.jsonl')]
claimed={c['property_id'] for c in m['checks']}; na={n['property_id'] for n in m.get('not_applicable',[])}
print('unaccounted:', [i for i in ids if i not in claimed and i not in na])
